package main

// C05 — batch authorization equals brute-force authorization of every substitution.

import (
	"go/token"
	"go/types"
	"sort"
	"strings"

	"golang.org/x/tools/go/ssa"
)

func init() {
	register(&propCheck{
		ID: "C05",
		Explanation: "Structural rules for the batch enumerator: R5.1 every error in the package (callback, recursive step, context, request conversion) is tested and returned on the failing " +
			"edge; the context is consulted first in every step and joined at the end; R5.2 the evaluator state is saved before the first write of a step and restored on its normal exit; " +
			"inside the value loop the environment is reset from the per-level snapshot and the variable's binding set before each recursive step; each request part is re-substituted from " +
			"the snapshot's same part under the flag computed for that part; the compiled cache is invalidated whenever the policies are replaced; R5.3 the loop over a variable's values is a " +
			"full range whose every iteration reaches the recursive step; R5.4 substitution and variable discovery descend into the same value kinds, every occurrence inside a record is " +
			"replaced (the per-entry store is guarded only by that entry's changed flag) and every member of a changed set is rebuilt; R5.5 the batch authorizer loop obeys the decision table " +
			"(R2.1, R2.2, R2.3 and R2.6 of C02 applied to the batch loop here, under those names); R5.6 the four request parts are converted from the same-named environment parts, the substitution map and the compiled policies are attached, and the callback is " +
			"invoked once with that result and its error returned; R5.7 the recursion consumes one variable per level (re-slice [1:] dominates the recursive call; the empty list authorizes " +
			"instead of recursing); R5.8 batch.Authorize takes the request in as given (variable items are the entries of request.Variables untouched, env.Entities is the entities argument or an empty store when that is nil, the four request parts go in under their own names). Not decided: exact once-per-element counting, equivalence of staged partial evaluation (C06). R5.9 snapshot persistence: every map write in what doBatch reaches goes to a map made by that function (or to a state member replaced by a fresh map first), so the shallow save/restore of the enumeration state is a real restore.",
		Run: runC05,
	})
}

func batchField(p *Prog, name string) int {
	n := p.namedType(pBatch, "batchEvaler")
	if n == nil {
		return -1
	}
	st := n.Underlying().(*types.Struct)
	for i := 0; i < st.NumFields(); i++ {
		if st.Field(i).Name() == name {
			return i
		}
	}
	return -1
}

// isFieldAddrOf: addr is &base.f (f by name) where base is the given value.
func fieldAddrName(addr ssa.Value) (ssa.Value, string) {
	fa, ok := addr.(*ssa.FieldAddr)
	if !ok {
		return nil, ""
	}
	pt, ok := fa.X.Type().Underlying().(*types.Pointer)
	if !ok {
		return nil, ""
	}
	st, ok := pt.Elem().Underlying().(*types.Struct)
	if !ok {
		return nil, ""
	}
	return fa.X, st.Field(fa.Field).Name()
}

func runC05(p *Prog, r *Report) {
	// R5.1 generic error discipline over the package
	n := 0
	for _, fn := range p.Funcs {
		if fnPkgPath(fn) != pBatch {
			continue
		}
		n++
		checkErrorsReturned(p, r, "R5.1-error-propagation", fn)
	}
	if n < 8 {
		r.Anchor("R5.1-error-propagation", "functions of x/exp/batch")
	}
	doBatch := p.fn(pBatch, "doBatch")
	auth := p.fn(pBatch, "Authorize")
	if doBatch == nil || auth == nil {
		r.Anchor("R5.anchor", "batch.doBatch / batch.Authorize")
		return
	}
	c5Context(p, r, doBatch, auth)
	c5SaveRestore(p, r, doBatch)
	c5Substitution(p, r)
	c5Callback(p, r)
	c5Cache(p, r)
	c5Discovery(p, r, auth)
	c5RequestPassThrough(p, r, auth)
	c5SnapshotPersistence(p, r)
	r.Floor("R5.8-request-pass-through", 7)
	// R5.5 sibling authorizer: the batch package has its own copy of the decision loop; the decision-table rules of C02
	// (R2.1 no early exit, R2.2 classification, R2.3 decision, R2.6 fresh accumulators) are applied to that copy here,
	// under their own names
	nb := 0
	for _, al := range findAuthLoops(p) {
		if fnPkgPath(al.outer) == pBatch {
			nb++
			checkAuthLoop(p, r, al)
		}
	}
	if nb == 0 {
		r.Anchor("R5.5-sibling-authorizer", "the decision loop of x/exp/batch (a call of eval.BoolEvaler.Eval)")
	}
	r.Floor("R2.2-classification", 6)
	r.Floor("R5.1-error-propagation", 8)
	r.Floor("R5.2-save-restore", 8)
	r.Floor("R5.3-every-value", 2)
	r.Floor("R5.4-substitution", 5)
	r.Floor("R5.6-callback", 6)
	r.Floor("R5.7-measure", 2)
}

func c5Context(p *Prog, r *Report, doBatch, auth *ssa.Function) {
	const rule = "R5.1-error-propagation"
	// first thing in every step: ctx.Err() != nil => return it
	good := false
	b0 := doBatch.Blocks[0]
	for _, in := range b0.Instrs {
		if c, ok := in.(*ssa.Call); ok && c.Call.IsInvoke() && c.Call.Method.Name() == "Err" && c.Call.Value == ssa.Value(doBatch.Params[0]) {
			if iff, ok := lastInstr(b0).(*ssa.If); ok {
				if nn, k := nilTest(Guard{Cond: iff.Cond, Pol: true, If: iff}, c); k {
					tb := b0.Succs[0]
					if !nn {
						tb = b0.Succs[1]
					}
					if ret, ok := lastInstr(tb).(*ssa.Return); ok && retVal(ret, 0) == ssa.Value(c) {
						good = true
					}
				}
			}
		}
		// nothing that has effects may precede it
		if c, ok := in.(*ssa.Call); ok && !c.Call.IsInvoke() {
			if f := c.Call.StaticCallee(); f != nil && fnPkgPath(f) == pBatch {
				good = false
			}
		}
	}
	r.Check(good, rule, "batch.doBatch:ctx-first", p.pos(doBatch.Pos()), "each enumeration step first returns a cancelled context's error", "doBatch must test ctx.Err() and return it before doing anything else (cancellation must stop the enumeration)")
	// Authorize joins the final ctx.Err()
	joined := false
	for _, c := range callsIn(auth) {
		if f := c.Common().StaticCallee(); f != nil && f.String() == "errors.Join" {
			call := c.(*ssa.Call)
			// varargs slice holds doBatch's result and ctx.Err()
			var hasStep, hasCtx bool
			if sl, ok := call.Call.Args[0].(*ssa.Slice); ok {
				if arr, ok := sl.X.(*ssa.Alloc); ok {
					for _, ref := range *arr.Referrers() {
						if ia, ok := ref.(*ssa.IndexAddr); ok {
							for _, rr := range *ia.Referrers() {
								if st, ok := rr.(*ssa.Store); ok {
									if cc, ok := st.Val.(*ssa.Call); ok {
										if cc.Call.StaticCallee() != nil && cc.Call.StaticCallee().Name() == "doBatch" {
											hasStep = true
										}
										if cc.Call.IsInvoke() && cc.Call.Method.Name() == "Err" {
											hasCtx = true
										}
									}
								}
							}
						}
					}
				}
			}
			for _, b := range auth.Blocks {
				if ret, ok := lastInstr(b).(*ssa.Return); ok && retVal(ret, 0) == ssa.Value(call) && hasStep && hasCtx {
					joined = true
				}
			}
		}
	}
	r.Check(joined, rule, "batch.Authorize:final", p.pos(auth.Pos()), "returns errors.Join(enumeration error, ctx.Err())", "Authorize must return the enumeration's error joined with the context's error")
}

func c5SaveRestore(p *Prog, r *Report, fn *ssa.Function) {
	const rule = "R5.2-save-restore"
	be := fn.Params[1]
	q := fnQual(fn)
	m := p.modref()
	// the save: a whole-struct load of *be
	var save *ssa.UnOp
	forEachInstr(fn, func(in ssa.Instruction) {
		if ld, ok := in.(*ssa.UnOp); ok && ld.Op == token.MUL && ld.X == ssa.Value(be) {
			save = ld
		}
	})
	// writes to *be: stores through field addresses of be, and calls passing be to callees that write it
	var writes []ssa.Instruction
	var restore *ssa.Store
	var recCall *ssa.Call
	forEachInstr(fn, func(in ssa.Instruction) {
		switch x := in.(type) {
		case *ssa.Store:
			if base, _, ok := topField(x.Addr); ok && base == ssa.Value(be) {
				writes = append(writes, x)
			}
			if x.Addr == ssa.Value(be) {
				restore = x
			}
		case *ssa.MapUpdate:
			if ld, ok := x.Map.(*ssa.UnOp); ok && ld.Op == token.MUL {
				if base, _, ok := topField(ld.X); ok && base == ssa.Value(be) {
					writes = append(writes, x)
				}
			}
		case *ssa.Call:
			g := x.Call.StaticCallee()
			if g == nil {
				return
			}
			if g == fn {
				recCall = x
			}
			for i, a := range x.Call.Args {
				if a == ssa.Value(be) {
					if s := m.sums[g]; s != nil {
						for k := range s.writes {
							if k.Kind == okParam && k.Idx == i && g.Name() != "diagnosticAuthzWithCallback" {
								writes = append(writes, x)
							}
						}
					}
				}
			}
		}
	})
	if save == nil || restore == nil || recCall == nil {
		r.Viol(rule, q+":save-restore", p.pos(fn.Pos()), "the step must copy *be before modifying it, recurse, and assign the copy back on its normal exit (found save="+boolStr(save != nil, "y", "n")+" restore="+boolStr(restore != nil, "y", "n")+" recursive-call="+boolStr(recCall != nil, "y", "n")+")")
		return
	}
	okSave := true
	for _, w := range writes {
		if w == ssa.Instruction(restore) {
			continue
		}
		if !instrDominates(save, w) {
			okSave = false
		}
	}
	r.Check(okSave && len(writes) >= 5, rule, q+":save-first", p.pos(save.Pos()), "the state is copied before the first of "+itoa(len(writes))+" writes", "some write to the shared evaluator state is not preceded by the state copy: the caller's level would see it after the step returns")
	r.Check(restore.Val == ssa.Value(save), rule, q+":restore-value", p.pos(restore.Pos()), "the copy taken on entry is what is assigned back", "the state assigned back on exit is not the copy taken before the step's first write")
	// every nil-error return that follows a write has the restore before it
	restoreOK := true
	for _, b := range fn.Blocks {
		ret, ok := lastInstr(b).(*ssa.Return)
		if !ok || !isNilConst(retVal(ret, 0)) {
			continue
		}
		if save.Block().Dominates(b) && !instrDominates(restore, ret) {
			restoreOK = false
		}
	}
	r.Check(restoreOK, rule, q+":restore-on-exit", p.pos(restore.Pos()), "every normal exit after the copy restores the state", "a normal (nil) return after the step modified the state does not restore it")
	// the loop over the variable's values
	loop := innermostLoop(loopsOf(fn), recCall.Block())
	if loop == nil {
		r.Undec("R5.3-every-value", q, p.pos(recCall.Pos()), "recursive step is not inside a loop over the variable's values")
		return
	}
	// element of the loop
	var elem ssa.Value
	var seq ssa.Value
	for b := range loop.Body {
		for _, in := range b.Instrs {
			if ia, ok := in.(*ssa.IndexAddr); ok && isFullRangeLoopIdx(loop, ia.Index, ia.X) {
				for _, ref := range *ia.Referrers() {
					if ld, ok := ref.(*ssa.UnOp); ok && ld.Op == token.MUL {
						elem = ld
						seq = ia.X
					}
				}
			}
		}
	}
	r.Check(elem != nil, "R5.3-every-value", q+":full-range", p.pos(recCall.Pos()), "the loop ranges over every value of the variable", "the loop around the recursive step is not a plain range over all the variable's values")
	if elem == nil {
		return
	}
	// the ranged slice is u.Values with u = be.Variables[0] taken before the re-slice
	_ = seq
	// every iteration reaches the recursive call; exits only via header or the error return after the call
	skip := false
	for _, s := range loop.Header.Succs {
		if loop.Body[s] && reachableAvoiding(s, loop.Header, map[*ssa.BasicBlock]bool{recCall.Block(): true}) {
			skip = true
		}
	}
	exitsOK := true
	for _, e := range loop.exitEdges() {
		if e[0] == loop.Header {
			continue
		}
		// allowed: leaving because the recursive call failed
		okExit := false
		if e[1] != nil {
			if ret, isRet := lastInstr(e[1]).(*ssa.Return); isRet {
				if ev := retVal(ret, 0); ev == ssa.Value(recCall) {
					okExit = true
				}
			}
		}
		if !okExit {
			exitsOK = false
		}
	}
	r.Check(!skip && exitsOK, "R5.3-every-value", q+":reaches-step", p.pos(recCall.Pos()), "every value leads to exactly one recursive step; the loop ends only by exhaustion or by that step's error", "some value of the variable is skipped (a path through the loop body avoids the recursive step) or the loop can stop for a reason other than the step's error")
	// per-iteration reset of env from the snapshot
	var snapshot *ssa.Alloc // loopEnv
	var envReset *ssa.Store
	for b := range loop.Body {
		for _, in := range b.Instrs {
			st, ok := in.(*ssa.Store)
			if !ok {
				continue
			}
			base, fname := fieldAddrName(st.Addr)
			if base == ssa.Value(be) && fname == "env" {
				if ld, ok := st.Val.(*ssa.UnOp); ok && ld.Op == token.MUL {
					if a, ok := ld.X.(*ssa.Alloc); ok {
						snapshot = a
						envReset = st
					}
				}
			}
		}
	}
	snapOK := false
	if snapshot != nil {
		// the snapshot's only whole store happens before the loop, from be.env
		nSt := 0
		for _, ref := range *snapshot.Referrers() {
			if st, ok := ref.(*ssa.Store); ok && st.Addr == ssa.Value(snapshot) {
				nSt++
				if ld, ok := st.Val.(*ssa.UnOp); ok && ld.Op == token.MUL {
					base, fname := fieldAddrName(ld.X)
					if base == ssa.Value(be) && fname == "env" && !loop.Body[st.Block()] && st.Block().Dominates(loop.Header) {
						snapOK = true
					}
				}
			}
			// no field of the snapshot is written
			if fa, ok := ref.(*ssa.FieldAddr); ok {
				for _, rr := range *fa.Referrers() {
					if st, ok := rr.(*ssa.Store); ok && st.Addr == ssa.Value(fa) {
						snapOK = false
						nSt = 99
					}
				}
			}
		}
		if nSt != 1 {
			snapOK = false
		}
	}
	r.Check(envReset != nil && snapOK && instrDominates(envReset, recCall), rule, q+":env-reset", p.pos(recCall.Pos()), "each iteration starts from the per-level snapshot of the environment", "each iteration must reset be.env from a snapshot taken once before the loop (otherwise substitutions of the previous value leak into the next)")
	// binding: be.Values[u.Key] = v before the recursive step
	bindOK := false
	for b := range loop.Body {
		for _, in := range b.Instrs {
			mu, ok := in.(*ssa.MapUpdate)
			if !ok || mu.Value != elem {
				continue
			}
			if ld, ok := mu.Map.(*ssa.UnOp); ok && ld.Op == token.MUL {
				base, fname := fieldAddrName(ld.X)
				if base == ssa.Value(be) && fname == "Values" && isVarKey(mu.Key) && instrDominates(mu, recCall) {
					bindOK = true
				}
			}
		}
	}
	r.Check(bindOK, rule, q+":binding", p.pos(recCall.Pos()), "the variable is bound to the current value before the recursive step", "be.Values[variable] is not set to the loop's current value before the recursive step")
	// the Values map written in the loop is a per-level clone
	cloneOK := false
	forEachInstr(fn, func(in ssa.Instruction) {
		st, ok := in.(*ssa.Store)
		if !ok {
			return
		}
		base, fname := fieldAddrName(st.Addr)
		if base == ssa.Value(be) && fname == "Values" {
			if c, ok := st.Val.(*ssa.Call); ok && c.Call.StaticCallee() != nil && stdName(c.Call.StaticCallee()) == "maps.Clone" && st.Block().Dominates(loop.Header) && instrDominates(save, st) {
				cloneOK = true
			}
		}
	})
	r.Check(cloneOK, rule, q+":values-cloned", p.pos(fn.Pos()), "the substitution map is cloned per level before it is written", "the substitution map is written in the loop without a per-level clone: results handed to earlier callbacks would change")
	// the four parts: be.env.X = cloneSub(loopEnv.X, u.Key, v) under the flag of cloneSub(be.env.X, u.Key, dummy)
	parts := 0
	for b := range loop.Body {
		for _, in := range b.Instrs {
			st, ok := in.(*ssa.Store)
			if !ok {
				continue
			}
			fa, ok := st.Addr.(*ssa.FieldAddr)
			if !ok {
				continue
			}
			base, fname := fieldAddrName(fa.X)
			if base != ssa.Value(be) || fname != "env" {
				continue
			}
			_, part := fieldAddrName(st.Addr)
			ex, ok := st.Val.(*ssa.Extract)
			if !ok {
				continue
			}
			call, ok := ex.Tuple.(*ssa.Call)
			if !ok || call.Call.StaticCallee() == nil || call.Call.StaticCallee().Name() != "cloneSub" {
				continue
			}
			parts++
			srcOK := false
			if ld, ok := call.Call.Args[0].(*ssa.UnOp); ok && ld.Op == token.MUL {
				sb, sp := fieldAddrName(ld.X)
				if sb == ssa.Value(snapshot) && sp == part {
					srcOK = true
				}
			}
			argsOK := isVarKey(call.Call.Args[1]) && call.Call.Args[2] == elem
			// guard flag
			flagOK := false
			foreign := false
			for _, g := range guardsAt(st.Block()) {
				g = flattenGuard(g)
				// a flag computed for a different request part must not decide this part's substitution
				if fex, ok := g.Cond.(*ssa.Extract); ok && fex.Index == 1 {
					if fc, ok := fex.Tuple.(*ssa.Call); ok && fc.Call.StaticCallee() != nil && fc.Call.StaticCallee().Name() == "cloneSub" {
						if ld, ok := fc.Call.Args[0].(*ssa.UnOp); ok && ld.Op == token.MUL {
							if _, ipart := fieldAddrName(ld.X); ipart != part {
								foreign = true
							}
						}
					}
				}
				if fex, ok := g.Cond.(*ssa.Extract); ok && g.Pol && fex.Index == 1 {
					if fc, ok := fex.Tuple.(*ssa.Call); ok && fc.Call.StaticCallee() != nil && fc.Call.StaticCallee().Name() == "cloneSub" {
						if ld, ok := fc.Call.Args[0].(*ssa.UnOp); ok && ld.Op == token.MUL {
							inner, ipart := fieldAddrName(ld.X)
							ib, ifn := fieldAddrName(inner)
							if ib == ssa.Value(be) && ifn == "env" && ipart == part && isVarKey(fc.Call.Args[1]) {
								flagOK = true
							}
						}
					}
				}
			}
			r.Check(srcOK && argsOK && flagOK && !foreign, rule, q+":part:"+part, p.pos(st.Pos()), "request part "+part+" is re-substituted from the snapshot's "+part+" under its own changed flag",
				"request part "+part+" must be substituted from the snapshot's same part, with the current variable and value, under the flag computed for that part (source-ok="+boolStr(srcOK, "y", "n")+" args-ok="+boolStr(argsOK, "y", "n")+" flag-ok="+boolStr(flagOK, "y", "n")+" guarded-by-another-part's-flag="+boolStr(foreign, "y", "n")+")")
		}
	}
	r.Check(parts == 4, rule, q+":parts", p.pos(recCall.Pos()), "all four request parts are substituted", "expected the substitution of principal, action, resource and context in the value loop; found "+itoa(parts))

	// R5.7 measure
	var reslice *ssa.Store
	forEachInstr(fn, func(in ssa.Instruction) {
		st, ok := in.(*ssa.Store)
		if !ok {
			return
		}
		base, fname := fieldAddrName(st.Addr)
		if base == ssa.Value(be) && fname == "Variables" {
			if sl, ok := st.Val.(*ssa.Slice); ok && sl.Low != nil && sl.High == nil {
				if k, isK := constInt(sl.Low); isK && k == 1 {
					if ld, ok := sl.X.(*ssa.UnOp); ok && ld.Op == token.MUL {
						b2, f2 := fieldAddrName(ld.X)
						if b2 == ssa.Value(be) && f2 == "Variables" {
							reslice = st
						}
					}
				}
			}
		}
	})
	r.Check(reslice != nil && instrDominates(reslice, recCall), "R5.7-measure", q+":consume-variable", p.pos(recCall.Pos()), "one variable is consumed (Variables = Variables[1:]) before every recursive step", "the recursive step is not dominated by be.Variables = be.Variables[1:]: the recursion has no decreasing measure")
	baseOK := false
	for _, g := range guardsAt(recCall.Block()) {
		if s, ne, ok := nonEmptyFact(g); ok && ne {
			if ld, ok := s.(*ssa.UnOp); ok && ld.Op == token.MUL {
				b2, f2 := fieldAddrName(ld.X)
				if b2 == ssa.Value(be) && f2 == "Variables" {
					baseOK = true
				}
			}
		}
	}
	r.Check(baseOK, "R5.7-measure", q+":base-case", p.pos(recCall.Pos()), "with no variables left the step authorizes instead of recursing", "the recursive step is reachable when no variables are left")
}

// isVarKey: v is (a load of) the Key field of the current variable item.
func isVarKey(v ssa.Value) bool {
	ld, ok := stripConv(v).(*ssa.UnOp)
	if !ok || ld.Op != token.MUL {
		return false
	}
	_, f := fieldAddrName(ld.X)
	return f == "Key"
}

func c5Substitution(p *Prog, r *Report) {
	const rule = "R5.4-substitution"
	kinds := func(fname string) []string {
		var out []string
		for _, ti := range p.findTypeSwitch(pBatch, fname, "Value") {
			for _, t := range ti.Cases {
				out = append(out, valueKindName(t))
			}
		}
		sort.Strings(out)
		return out
	}
	a, b := kinds("cloneSub"), kinds("findVariables")
	r.Check(len(a) > 0 && strings.Join(a, ",") == strings.Join(b, ","), rule, "batch.cloneSub~findVariables", "-", "both descend into ["+strings.Join(a, ",")+"]", "variable discovery looks inside ["+strings.Join(b, ",")+"] but substitution inside ["+strings.Join(a, ",")+"]: a variable found in one kind would never be substituted")
	want := []string{"EntityUID", "Record", "Set"}
	r.Check(strings.Join(a, ",") == strings.Join(want, ","), rule, "batch.cloneSub:kinds", "-", "entities, records and sets are handled", "substitution must handle exactly entities, records and sets; found ["+strings.Join(a, ",")+"]")
	fn := p.fn(pBatch, "cloneSub")
	if fn == nil {
		r.Anchor(rule, "batch.cloneSub")
		return
	}
	// record entries: every map update of the copy is guarded by exactly that entry's changed flag
	nUpd := 0
	for _, f := range withAnon(fn) {
		forEachInstr(f, func(in ssa.Instruction) {
			mu, ok := in.(*ssa.MapUpdate)
			if !ok {
				return
			}
			nUpd++
			var flagOK bool
			var extra []string
			for _, g := range guardsAt(mu.Block()) {
				if f != fn && g.If.Block() == f.Blocks[0] {
					continue
				}
				fg := flattenGuard(g)
				if ex, ok := fg.Cond.(*ssa.Extract); ok && ex.Index == 1 && fg.Pol {
					if c, ok := ex.Tuple.(*ssa.Call); ok && c.Call.StaticCallee() == fn {
						// and the stored value is that call's first result
						if v, ok := mu.Value.(*ssa.Extract); ok && v.Tuple == ssa.Value(c) && v.Index == 0 {
							flagOK = true
							continue
						}
					}
				}
				if _, isPhi := fg.Cond.(*ssa.Phi); isPhi {
					continue // the && phi itself; its operands are reported separately
				}
				if ex, ok := fg.Cond.(*ssa.Extract); ok {
					if _, isTA := ex.Tuple.(*ssa.TypeAssert); isTA {
						continue // the enclosing type-switch case
					}
				}
				extra = append(extra, p.pos(g.If.Pos()))
			}
			r.Check(flagOK && len(extra) == 0, rule, "batch.cloneSub:record-entry", p.pos(mu.Pos()), "a record entry is replaced exactly when that entry changed",
				"the replacement of a record entry must be guarded only by that entry's own changed flag; an additional condition (e.g. on the copy already existing) makes later occurrences of the variable in the same record keep the placeholder")
		})
	}
	r.Check(nUpd == 1, rule, "batch.cloneSub:record-update", p.pos(fn.Pos()), "one update site for record entries", "expected exactly one record-entry update in cloneSub, found "+itoa(nUpd))
	// set rebuild: the loop that appends rebuilt members has no condition on the append
	nApp := 0
	for _, f := range withAnon(fn) {
		forEachInstr(f, func(in ssa.Instruction) {
			c, ok := in.(*ssa.Call)
			if !ok || !isBuiltin(&c.Call, "append") {
				return
			}
			sl, ok := c.Type().Underlying().(*types.Slice)
			if !ok || !typeIs(sl.Elem(), pTypes, "Value") {
				return
			}
			nApp++
			uncond := true
			for _, g := range guardsAt(c.Block()) {
				if f != fn && g.If.Block() == f.Blocks[0] {
					continue
				}
				if g.If.Block().Parent() == f && f != fn {
					uncond = false
				}
			}
			// the appended member is the substituted one
			el := appendedSingle(c)
			sub := false
			if ex, ok := el.(*ssa.Extract); ok && ex.Index == 0 {
				if cc, ok := ex.Tuple.(*ssa.Call); ok && cc.Call.StaticCallee() == fn {
					sub = true
				}
			}
			if ld, ok := el.(*ssa.UnOp); ok && ld.Op == token.MUL {
				// spilled loop variable reassigned from cloneSub's result
				if a, ok := ld.X.(*ssa.Alloc); ok {
					for _, ref := range *a.Referrers() {
						if st, ok := ref.(*ssa.Store); ok {
							if ex, ok := st.Val.(*ssa.Extract); ok && ex.Index == 0 {
								if cc, ok := ex.Tuple.(*ssa.Call); ok && cc.Call.StaticCallee() == fn {
									sub = true
								}
							}
						}
					}
				}
			}
			r.Check(uncond && sub, rule, "batch.cloneSub:set-member", p.pos(c.Pos()), "every member of a changed set is rebuilt through the substitution", "when a set changes, every member must be passed through cloneSub and appended unconditionally")
		})
	}
	r.Check(nApp == 1, rule, "batch.cloneSub:set-rebuild", p.pos(fn.Pos()), "one rebuild site for sets", "expected exactly one set rebuild in cloneSub, found "+itoa(nApp))
	// unchanged verdict: inside a container case, "unchanged" (false) is returned only under the zero test of a cell that a
	// full iteration over the container sets whenever the recursive substitution of a member reports a change
	nUnch := 0
	for _, b := range fn.Blocks {
		ret, ok := lastInstr(b).(*ssa.Return)
		if !ok || len(ret.Results) != 2 {
			continue
		}
		if ch, isC := constBool(retVal(ret, 1)); !isC || ch {
			continue
		}
		var caseVal ssa.Value
		kind := ""
		var cells []*ssa.Alloc
		for _, g := range guardsAt(b) {
			fg := flattenGuard(g)
			if ex, ok := fg.Cond.(*ssa.Extract); ok && fg.Pol && ex.Index == 1 {
				if ta, ok := ex.Tuple.(*ssa.TypeAssert); ok && (typeIs(ta.AssertedType, pTypes, "Record") || typeIs(ta.AssertedType, pTypes, "Set")) {
					caseVal = extractOf(ta, 0)
					kind = valueKindName(ta.AssertedType)
				}
			}
			// !flag  or  m == nil
			if ld, ok := fg.Cond.(*ssa.UnOp); ok && ld.Op == token.MUL && !fg.Pol {
				if a, ok := ld.X.(*ssa.Alloc); ok {
					cells = append(cells, a)
				}
			}
			if bo, ok := fg.Cond.(*ssa.BinOp); ok && ((bo.Op == token.EQL && fg.Pol) || (bo.Op == token.NEQ && !fg.Pol)) {
				for _, side := range []ssa.Value{bo.X, bo.Y} {
					if ld, ok := side.(*ssa.UnOp); ok && ld.Op == token.MUL {
						if a, ok := ld.X.(*ssa.Alloc); ok {
							cells = append(cells, a)
						}
					}
				}
			}
		}
		if kind == "" {
			continue
		}
		nUnch++
		good := false
		why := "no test of a change flag guards this return"
		for _, cell := range cells {
			// every non-zero store to the cell happens in the yield closure of a range over the container, under the
			// changed flag of a recursive call on the yielded member, which runs on every iteration
			okCell, nStores := true, 0
			for _, f := range withAnon(fn) {
				forEachInstr(f, func(in ssa.Instruction) {
					st, ok := in.(*ssa.Store)
					if !ok || originCell(st.Addr) != cell {
						return
					}
					if isZeroConst(st.Val) {
						return
					}
					nStores++
					if !isRangeFuncYield(f) || !rangesOver(f, caseVal) {
						okCell = false
						why = "the change flag is set outside a loop over the container's members (" + p.pos(st.Pos()) + ")"
						return
					}
					under := false
					for _, g := range guardsAt(st.Block()) {
						fg := flattenGuard(g)
						if ex, ok := fg.Cond.(*ssa.Extract); ok && fg.Pol && ex.Index == 1 {
							if c, ok := ex.Tuple.(*ssa.Call); ok && c.Call.StaticCallee() == fn && unconditionalInYield(c.Block()) && len(f.Params) > 0 && originParam(c.Call.Args[0]) == f.Params[len(f.Params)-1] {
								under = true
							}
						}
					}
					if !under {
						okCell = false
						why = "the change flag is not set from the recursive substitution of each member (" + p.pos(st.Pos()) + ")"
					}
				})
			}
			if okCell && nStores > 0 {
				good = true
			}
		}
		r.Check(good, rule, "batch.cloneSub:unchanged:"+kind, p.pos(ret.Pos()), "`unchanged` is reported for a "+kind+" only after every member's recursive substitution reported no change",
			"cloneSub reports a "+kind+" as unchanged without having asked the recursive substitution about every member ("+why+"): a variable nested deeper inside a member would be left as a placeholder")
	}
	r.Check(nUnch >= 2, rule, "batch.cloneSub:unchanged-sites", p.pos(fn.Pos()), "unchanged verdicts for records and sets located", "expected an `unchanged` return in both the record and the set case, found "+itoa(nUnch))
	// entity case: returns the value exactly when the marker's key equals k
	entOK := false
	for _, b := range fn.Blocks {
		ret, ok := lastInstr(b).(*ssa.Return)
		if !ok {
			continue
		}
		if originParam(retVal(ret, 0)) == fn.Params[2] {
			ch, isC := constBool(retVal(ret, 1))
			var isVar, keyEq bool
			for _, g := range guardsAt(b) {
				fg := flattenGuard(g)
				if ex, ok := fg.Cond.(*ssa.Extract); ok && fg.Pol && ex.Index == 1 {
					if c, ok := ex.Tuple.(*ssa.Call); ok && isCallTo(c, pEval, "ToVariable") {
						isVar = true
					}
				}
				if bo, ok := fg.Cond.(*ssa.BinOp); ok && bo.Op == token.EQL && fg.Pol && (originParam(bo.Y) == fn.Params[1] || originParam(bo.X) == fn.Params[1]) {
					keyEq = true
				}
			}
			if isC && ch && isVar && keyEq {
				entOK = true
			}
		}
	}
	r.Check(entOK, rule, "batch.cloneSub:entity", p.pos(fn.Pos()), "a marker is replaced exactly when it names the variable being bound", "the substituted value must be returned (changed=true) exactly for a variable marker whose name equals the variable being bound")
}

func c5Callback(p *Prog, r *Report) {
	const rule = "R5.6-callback"
	fn := p.fn(pBatch, "diagnosticAuthzWithCallback")
	if fn == nil {
		r.Anchor(rule, "batch.diagnosticAuthzWithCallback")
		return
	}
	q := fnQual(fn)
	be := fn.Params[0]
	// request parts
	conv := map[string]string{"Principal": "ValueToEntity", "Action": "ValueToEntity", "Resource": "ValueToEntity", "Context": "ValueToRecord"}
	seen := map[string]bool{}
	forEachInstr(fn, func(in ssa.Instruction) {
		st, ok := in.(*ssa.Store)
		if !ok {
			return
		}
		inner, part := fieldAddrName(st.Addr)
		if _, reqf := fieldAddrName(inner); reqf != "Request" {
			return
		}
		ex, ok := st.Val.(*ssa.Extract)
		if !ok {
			return
		}
		call, ok := ex.Tuple.(*ssa.Call)
		if !ok || call.Call.StaticCallee() == nil {
			return
		}
		srcPart := ""
		if ld, ok := call.Call.Args[0].(*ssa.UnOp); ok && ld.Op == token.MUL {
			envAddr, sp := fieldAddrName(ld.X)
			if b, f := fieldAddrName(envAddr); b == ssa.Value(be) && f == "env" {
				srcPart = sp
			}
		}
		seen[part] = true
		r.Check(call.Call.StaticCallee().Name() == conv[part] && srcPart == part, rule, q+":request."+part, p.pos(st.Pos()), "result.Request."+part+" = "+conv[part]+"(env."+part+")",
			"result.Request."+part+" must be converted from the environment's "+part+" with "+conv[part]+" (found "+call.Call.StaticCallee().Name()+"(env."+srcPart+"))")
	})
	for part := range conv {
		if !seen[part] {
			r.Viol(rule, q+":request."+part, p.pos(fn.Pos()), "result.Request."+part+" is not filled from the environment")
		}
	}
	// callback invoked once, with the result, returned
	var cb *ssa.Call
	nCb := 0
	for _, c := range callsIn(fn) {
		call, ok := c.(*ssa.Call)
		if !ok || call.Call.StaticCallee() != nil || call.Call.IsInvoke() {
			continue
		}
		if _, isB := call.Call.Value.(*ssa.Builtin); isB {
			continue
		}
		if ld, ok := call.Call.Value.(*ssa.UnOp); ok && ld.Op == token.MUL {
			if b, f := fieldAddrName(ld.X); b == ssa.Value(be) && f == "callback" {
				cb = call
				nCb++
			}
		}
	}
	tail := false
	if cb != nil {
		for _, ref := range *cb.Referrers() {
			if _, ok := ref.(*ssa.Return); ok {
				tail = true
			}
		}
	}
	inLoop := cb != nil && innermostLoop(loopsOf(fn), cb.Block()) != nil
	r.Check(nCb == 1 && tail && !inLoop, rule, q+":callback", p.pos(fn.Pos()), "the callback is invoked once per authorization and its error is returned", "the callback must be invoked exactly once per fully substituted request and its error returned (found "+itoa(nCb)+" call sites, returned="+boolStr(tail, "y", "n")+")")
	// Values attached, compile before authorize, decision/diagnostic from isAuthorized
	var vals, compiled, authz bool
	var compileCall, authCall ssa.Instruction
	forEachInstr(fn, func(in ssa.Instruction) {
		switch x := in.(type) {
		case *ssa.Store:
			if _, f := fieldAddrName(x.Addr); f == "Values" {
				if ld, ok := x.Val.(*ssa.UnOp); ok && ld.Op == token.MUL {
					if b, f2 := fieldAddrName(ld.X); b == ssa.Value(be) && f2 == "Values" {
						vals = true
					}
				}
			}
		case *ssa.Call:
			if g := x.Call.StaticCallee(); g != nil {
				if g.Name() == "batchCompile" {
					compiled = true
					compileCall = x
				}
				if g.Name() == "isAuthorized" {
					authz = true
					authCall = x
				}
			}
		}
	})
	order := compileCall != nil && authCall != nil && instrDominates(compileCall, authCall) && cb != nil && instrDominates(authCall, cb)
	r.Check(vals && compiled && authz && order, rule, q+":result", p.pos(fn.Pos()), "the result carries the substitution used and the decision of the batch authorizer over freshly compiled residual policies", "the result must carry be.Values and the decision/diagnostic of isAuthorized, computed after batchCompile and before the callback")
}

func c5Cache(p *Prog, r *Report) {
	const rule = "R5.2-save-restore"
	// every function that stores be.policies also stores compiled=false afterwards in the same function
	n := 0
	for _, fn := range p.Funcs {
		if fnPkgPath(fn) != pBatch {
			continue
		}
		var polStores, invalid []*ssa.Store
		forEachInstr(fn, func(in ssa.Instruction) {
			st, ok := in.(*ssa.Store)
			if !ok {
				return
			}
			base, f := fieldAddrName(st.Addr)
			if base == nil || !typeIs(base.Type(), pBatch, "batchEvaler") {
				return
			}
			if f == "policies" {
				polStores = append(polStores, st)
			}
			if f == "compiled" {
				if cb, isC := constBool(st.Val); isC && !cb {
					invalid = append(invalid, st)
				}
			}
		})
		for _, ps := range polStores {
			n++
			// initial construction in Authorize (compiled is false by zero value) is fine when no compile can have happened: require an invalidation in the same function unless the evaluator is fresh there
			fresh := false
			if base, _ := fieldAddrName(ps.Addr); base != nil {
				if _, isAlloc := base.(*ssa.Alloc); isAlloc {
					fresh = true
				}
				// a captured local: *cell where the cell holds a fresh allocation made in this function
				if ld, ok := base.(*ssa.UnOp); ok && ld.Op == token.MUL {
					if cell, ok := ld.X.(*ssa.Alloc); ok {
						for _, ref := range *cell.Referrers() {
							if st, ok := ref.(*ssa.Store); ok && st.Addr == ssa.Value(cell) {
								if _, isAlloc := st.Val.(*ssa.Alloc); isAlloc {
									fresh = true
								}
							}
						}
					}
				}
			}
			good := fresh
			for _, iv := range invalid {
				if iv.Block() == ps.Block() || ps.Block().Dominates(iv.Block()) || iv.Block().Dominates(ps.Block()) {
					good = true
				}
			}
			r.Check(good, rule, fnQual(fn)+":cache-invalidation", p.pos(ps.Pos()), "replacing the policies invalidates the compiled cache", "be.policies is replaced without resetting be.compiled: the next authorization would run evaluators compiled from the previous policies")
		}
	}
	if n == 0 {
		r.Anchor(rule, "stores to batchEvaler.policies")
	}
	// batchCompile: every evaluator installed is compiled, in this call, from the policy it is stored with
	if fn := p.fn(pBatch, "batchCompile"); fn != nil {
		n := 0
		forEachInstr(fn, func(in ssa.Instruction) {
			mu, ok := in.(*ssa.MapUpdate)
			if !ok {
				return
			}
			n++
			loop := innermostLoop(loopsOf(fn), mu.Block())
			var pol ssa.Value
			if loop != nil {
				for _, hin := range loop.Header.Instrs {
					if nx, ok := hin.(*ssa.Next); ok {
						pol = extractOf(nx, 2)
					}
				}
			}
			good := false
			if a, ok := mu.Value.(*ssa.Alloc); ok && pol != nil {
				var polOK, evOK bool
				for _, ref := range *a.Referrers() {
					fa, ok := ref.(*ssa.FieldAddr)
					if !ok {
						continue
					}
					_, fname := fieldAddrName(fa)
					for _, rr := range *fa.Referrers() {
						st, ok := rr.(*ssa.Store)
						if !ok {
							continue
						}
						switch fname {
						case "Policy":
							polOK = st.Val == pol
						case "Evaler":
							if c, ok := st.Val.(*ssa.Call); ok && isCallTo(c, pEval, "Compile") && c.Call.Args[0] == pol {
								evOK = true
							}
						}
					}
				}
				good = polOK && evOK
			}
			r.Check(good, rule, "batch.batchCompile:fresh-evaluators", p.pos(mu.Pos()), "each evaluator is compiled here from the current residual policy", "an evaluator installed by batchCompile is not eval.Compile(p) of the policy being iterated (e.g. taken from a cache keyed by id): residual policies differ between substitutions, so a reused evaluator decides with another substitution's residual")
		})
		if n == 0 {
			r.Undec(rule, "batch.batchCompile:fresh-evaluators", p.pos(fn.Pos()), "no evaluator installation found")
		}
	}
	// batchCompile sets compiled=true only after building all evaluators
	if fn := p.fn(pBatch, "batchCompile"); fn != nil {
		var setTrue *ssa.Store
		var loopHdr *ssa.BasicBlock
		forEachInstr(fn, func(in ssa.Instruction) {
			if st, ok := in.(*ssa.Store); ok {
				if _, f := fieldAddrName(st.Addr); f == "compiled" {
					if cb, isC := constBool(st.Val); isC && cb {
						setTrue = st
					}
				}
			}
		})
		for _, l := range loopsOf(fn) {
			loopHdr = l.Header
		}
		r.Check(setTrue != nil && loopHdr != nil && loopHdr.Dominates(setTrue.Block()) && !reachable(setTrue.Block(), loopHdr), rule, "batch.batchCompile", p.pos(fn.Pos()), "compiled is set after all evaluators are built", "batchCompile must mark the cache valid only after compiling every policy")
	}
}

func c5Discovery(p *Prog, r *Report, auth *ssa.Function) {
	const rule = "R5.6-callback"
	// findVariables is applied to all four request parts
	parts := map[string]bool{}
	for _, c := range callsIn(auth) {
		if !isCallTo(c, pBatch, "findVariables") {
			continue
		}
		a := c.Common().Args[1]
		if ld, ok := a.(*ssa.UnOp); ok && ld.Op == token.MUL {
			if _, f := fieldAddrName(ld.X); f != "" {
				parts[f] = true
			}
		}
	}
	want := []string{"Action", "Context", "Principal", "Resource"}
	got := sortedKeys(parts)
	r.Check(strings.Join(got, ",") == strings.Join(want, ","), rule, "batch.Authorize:discover", p.pos(auth.Pos()), "variables are discovered in all four request parts", "variable discovery must cover principal, action, resource and context; covers ["+strings.Join(got, ",")+"]")
	// env parts assigned from same-named request parts
	bad := []string{}
	nEnv := 0
	forEachInstr(auth, func(in ssa.Instruction) {
		st, ok := in.(*ssa.Store)
		if !ok {
			return
		}
		base, f := fieldAddrName(st.Addr)
		if base == nil || !typeIs(base.Type(), pEval, "Env") || f == "Entities" {
			return
		}
		if ld, ok := stripConv(st.Val).(*ssa.UnOp); ok && ld.Op == token.MUL {
			if _, sf := fieldAddrName(ld.X); sf != "" {
				nEnv++
				if sf != f {
					bad = append(bad, f+"<-"+sf)
				}
			}
		}
	})
	r.Check(len(bad) == 0 && nEnv == 4, rule, "batch.Authorize:env", p.pos(auth.Pos()), "the environment's parts come from the same-named request parts", "environment parts are not initialised from the same-named request parts: "+strings.Join(bad, ",")+" ("+itoa(nEnv)+" assignments)")
}

// isZeroConst reports a nil/false/zero constant.
func isZeroConst(v ssa.Value) bool {
	c, ok := v.(*ssa.Const)
	if !ok {
		return false
	}
	if c.Value == nil {
		return true
	}
	if b, ok := constBool(c); ok {
		return !b
	}
	if n, ok := constInt(c); ok {
		return n == 0
	}
	return false
}

// rangesOver reports whether yield closure f is the body of a range-over-func loop over an iterator obtained from a
// method of container (container.All(), container.Values(), ...).
func rangesOver(f *ssa.Function, container ssa.Value) bool {
	mc := makeClosureOf(f)
	if mc == nil || container == nil {
		return false
	}
	for _, ref := range *mc.Referrers() {
		c, ok := ref.(*ssa.Call)
		if !ok || c.Call.IsInvoke() {
			continue
		}
		seq, ok := c.Call.Value.(*ssa.Call)
		if !ok || seq.Call.StaticCallee() == nil || len(seq.Call.Args) == 0 {
			continue
		}
		recv := stripConv(seq.Call.Args[0])
		if recv == container {
			return true
		}
		// the case variable spilled to a local that is assigned once
		if ld, ok := recv.(*ssa.UnOp); ok && ld.Op == token.MUL {
			if a, ok := ld.X.(*ssa.Alloc); ok {
				n, same := 0, true
				for _, f2 := range withAnon(a.Parent()) {
					forEachInstr(f2, func(in ssa.Instruction) {
						if st, ok := in.(*ssa.Store); ok && originCell(st.Addr) == a {
							n++
							if stripConv(st.Val) != container {
								same = false
							}
						}
					})
				}
				if n == 1 && same {
					return true
				}
			}
		}
	}
	return false
}

// unconditionalInYield reports whether block b of a range-over-func body runs on every iteration: its only guard is the
// synthetic re-entry check in the entry block.
func unconditionalInYield(b *ssa.BasicBlock) bool {
	f := b.Parent()
	for _, g := range guardsAt(b) {
		if g.If.Block() != f.Blocks[0] {
			return false
		}
	}
	return true
}

// R5.8 the request goes in as given: batch.Authorize enumerates exactly the candidate lists of the request and evaluates
// against exactly the entity store it was handed — (a) every variable item appended to the evaluator's list carries the
// key and the value list of one entry of request.Variables, untouched (a filtered or de-duplicated copy changes the number
// of callbacks); (b) the evaluation environment's Entities is the `entities` argument itself, replaced by an empty store
// only when it is nil (narrowing it to one implementation silently empties every other store); (c) principal, action,
// resource and context of the environment are the same-named request parts.
func c5RequestPassThrough(p *Prog, r *Report, auth *ssa.Function) {
	const rule = "R5.8-request-pass-through"
	q := fnQual(auth)
	var reqPar, entPar *ssa.Parameter
	for _, pr := range auth.Params {
		if typeIs(pr.Type(), pBatch, "Request") {
			reqPar = pr
		}
		if typeIs(pr.Type(), pTypes, "EntityGetter") {
			entPar = pr
		}
	}
	if reqPar == nil || entPar == nil {
		r.Anchor(rule, "batch.Authorize parameters (request, entities)")
		return
	}
	// the request may be spilled into a local: fields are read through FieldAddr on that cell or Field on the value
	isReqField := func(v ssa.Value, name string) bool {
		switch x := v.(type) {
		case *ssa.Field:
			if st := structOf(x.X.Type()); st != nil && st.Field(x.Field).Name() == name {
				for _, l := range leavesOf(x.X) {
					if l == ssa.Value(reqPar) {
						return true
					}
				}
			}
		case *ssa.UnOp:
			if fa, ok := x.X.(*ssa.FieldAddr); ok && x.Op == token.MUL {
				if _, f := fieldAddrName(fa); f == name {
					for _, l := range leavesOf(fa.X) {
						if l == ssa.Value(reqPar) {
							return true
						}
					}
				}
			}
		}
		return false
	}
	// (a) variable items
	nItems := 0
	forEachInstr(auth, func(in ssa.Instruction) {
		c, ok := in.(*ssa.Call)
		if !ok || !isBuiltin(&c.Call, "append") {
			return
		}
		sl, ok := c.Type().Underlying().(*types.Slice)
		if !ok || !typeIs(sl.Elem(), pBatch, "variableItem") {
			return
		}
		nItems++
		fields, _, ok := appendedStructFields(c)
		if !ok {
			r.Undec(rule, q+":variable-item", p.pos(c.Pos()), "the appended variable item is not a struct literal the rule can read")
			return
		}
		fromEntry := func(v ssa.Value, idx int) bool {
			ex, ok := stripConv(v).(*ssa.Extract)
			if !ok || ex.Index != idx {
				return false
			}
			nx, ok := ex.Tuple.(*ssa.Next)
			if !ok {
				return false
			}
			rg, ok := nx.Iter.(*ssa.Range)
			return ok && isReqField(rg.X, "Variables")
		}
		r.Check(fields["Key"] != nil && fromEntry(fields["Key"], 1), rule, q+":variable-item:key", p.pos(c.Pos()), "the item's key is the key of an entry of request.Variables",
			"a variable item's Key is not the key of the request.Variables entry being visited")
		r.Check(fields["Values"] != nil && fromEntry(fields["Values"], 2), rule, q+":variable-item:values", p.pos(c.Pos()), "the item's value list is the entry's list itself",
			"a variable item's Values is not the candidate list of the request.Variables entry itself (it is computed from it: filtered, de-duplicated, truncated …): the enumeration then no longer visits one request per element of the Cartesian product of the lists the caller gave")
	})
	r.Check(nItems == 1, rule, q+":variable-items", p.pos(auth.Pos()), "one place builds the variable list", "expected exactly one append of a variable item in batch.Authorize, found "+itoa(nItems))
	// (b), (c) the environment
	want := map[string]string{"Principal": "Principal", "Action": "Action", "Resource": "Resource", "Context": "Context"}
	seen := map[string]bool{}
	forEachInstr(auth, func(in ssa.Instruction) {
		st, ok := in.(*ssa.Store)
		if !ok {
			return
		}
		fa, ok := st.Addr.(*ssa.FieldAddr)
		if !ok {
			return
		}
		pp, ok := fa.X.Type().Underlying().(*types.Pointer)
		if !ok || !typeIs(pp.Elem(), pEval, "Env") {
			return
		}
		_, fname := fieldAddrName(fa)
		if src, ok := want[fname]; ok {
			seen[fname] = true
			r.Check(isReqField(stripConv(st.Val), src), rule, q+":env."+fname, p.pos(st.Pos()), "env."+fname+" is request."+src, "the evaluation environment's "+fname+" is not the request's "+src)
			return
		}
		if fname != "Entities" {
			return
		}
		seen["Entities"] = true
		good := true
		why := ""
		var visit func(v ssa.Value, d int, underNil bool)
		visit = func(v ssa.Value, d int, underNil bool) {
			if d > 5 {
				good, why = false, "too deep"
				return
			}
			switch x := v.(type) {
			case *ssa.Parameter:
				if x != entPar {
					good, why = false, "another parameter"
				}
			case *ssa.Phi:
				for i, e := range x.Edges {
					// the alternative to the parameter is admissible only on the `entities == nil` edge
					pred := x.Block().Preds[i]
					gs := guardsAt(pred)
					if iff, ok := lastInstr(pred).(*ssa.If); ok && pred.Succs[0] != pred.Succs[1] {
						gs = append(gs, Guard{Cond: iff.Cond, Pol: pred.Succs[0] == x.Block(), If: iff})
					}
					isNilEdge := false
					for _, g := range gs {
						if nn, k := nilTest(g, entPar); k && !nn {
							isNilEdge = true
						}
					}
					visit(e, d+1, isNilEdge)
				}
			case *ssa.MakeInterface:
				if !underNil {
					good, why = false, "a substitute store on a path where the argument is not nil"
					return
				}
				if _, isK := x.X.(*ssa.Const); !isK {
					if _, isMk := x.X.(*ssa.MakeMap); !isMk {
						good, why = false, "the substitute for a nil argument is not an empty store"
					}
				}
			case *ssa.Const:
				if !underNil {
					good, why = false, "a constant store on a path where the argument is not nil"
				}
			case *ssa.ChangeInterface:
				visit(x.X, d+1, underNil)
			default:
				good, why = false, "derived from "+v.Name()+" ("+strings.TrimPrefix(strings.SplitN(v.String(), "(", 2)[0], "*")+")"
			}
		}
		visit(st.Val, 0, false)
		r.Check(good, rule, q+":env.Entities", p.pos(st.Pos()), "env.Entities is the entities argument (an empty store only when it is nil)",
			"the evaluation environment's Entities is not the `entities` argument itself ("+why+"): policies are then evaluated against a different store than the one the caller supplied and cedar.Authorize would use")
	})
	for _, f := range []string{"Entities", "Principal", "Action", "Resource", "Context"} {
		if !seen[f] {
			r.Viol(rule, q+":env."+f, p.pos(auth.Pos()), "batch.Authorize never sets the evaluation environment's "+f)
		}
	}
}

// R5.9 — what a snapshot refers to stays as it was. doBatch saves the whole state by a shallow copy (`prev := *be`) and
// puts it back when a level is done; that restores the *references* held in the state, not the containers behind them.
// So a map that was reachable from the state when a snapshot was taken must never be written again: every map write
// (m[k] = v, delete, clear) in the package must go to a map that this very function made (a map literal, make,
// maps.Clone) — directly, or through a state member that the function replaced by such a fresh map before the write.
// Recycling a map across levels ("fill the spare one and swap") breaks the restore as soon as a third level reuses the
// map a saved level still points to.
func c5SnapshotPersistence(p *Prog, r *Report) {
	const rule = "R5.9-snapshot-persistence"
	stateT := p.namedType(pBatch, "batchEvaler")
	if stateT == nil {
		r.Anchor(rule, "batch.batchEvaler")
		return
	}
	isStatePtr := func(v ssa.Value) bool {
		pt, ok := v.Type().Underlying().(*types.Pointer)
		return ok && types.Identical(pt.Elem(), stateT)
	}
	freshMap := func(v ssa.Value) bool {
		switch x := v.(type) {
		case *ssa.MakeMap:
			return true
		case *ssa.Call:
			// maps.Clone, or a map handed out by another package (the state is private to this one; value types hand out copies)
			if f := x.Call.StaticCallee(); f != nil && (stdName(f) == "maps.Clone" || fnPkgPath(f) != pBatch) {
				return true
			}
		}
		return false
	}
	var fns []*ssa.Function
	// only what runs while snapshots exist: doBatch and everything it reaches inside the package (with their closures);
	// Authorize builds the initial state before the first snapshot is taken
	root := p.fn(pBatch, "doBatch")
	if root == nil {
		r.Anchor(rule, "batch.doBatch")
		return
	}
	for fn := range reachFrom(p, []*ssa.Function{root}) {
		if fnPkgPath(fn) == pBatch && len(fn.Blocks) > 0 {
			for _, f := range withAnon(fn) {
				fns = append(fns, f)
			}
		}
	}
	sort.Slice(fns, func(i, j int) bool { return fns[i].String() < fns[j].String() })
	n := 0
	done := map[*ssa.Function]bool{}
	for _, fn := range fns {
		if done[fn] {
			continue
		}
		done[fn] = true
		forEachInstr(fn, func(in ssa.Instruction) {
			var m ssa.Value
			what := ""
			switch x := in.(type) {
			case *ssa.MapUpdate:
				m, what = x.Map, "m[k] = v"
			case *ssa.Call:
				if isBuiltin(&x.Call, "delete") || isBuiltin(&x.Call, "clear") {
					if _, isMap := x.Call.Args[0].Type().Underlying().(*types.Map); isMap {
						m, what = x.Call.Args[0], x.Call.Value.Name()
					}
				}
			}
			if m == nil {
				return
			}
			n++
			construct := fnQual(fn) + ":" + what
			var ok func(v ssa.Value, depth int) (bool, string)
			ok = func(v ssa.Value, depth int) (bool, string) {
				if depth > 4 {
					return false, "the map's origin is too indirect to follow"
				}
				if freshMap(v) {
					return true, "a map made by this function"
				}
				switch y := v.(type) {
				case *ssa.Phi:
					for _, e := range y.Edges {
						if g, why := ok(e, depth+1); !g {
							return false, why
						}
					}
					return true, "maps made by this function"
				case *ssa.UnOp:
					if y.Op != token.MUL {
						break
					}
					if fa, isFA := y.X.(*ssa.FieldAddr); isFA && isStatePtr(fa.X) {
						// the member was replaced by a fresh map earlier in this function, on every path to the write
						for _, ref := range *fa.X.Referrers() {
							fa2, isFA2 := ref.(*ssa.FieldAddr)
							if !isFA2 || fa2.Field != fa.Field {
								continue
							}
							for _, u := range *fa2.Referrers() {
								st, isSt := u.(*ssa.Store)
								if isSt && st.Addr == ssa.Value(fa2) && freshMap(st.Val) && (st.Block() != in.Block() && st.Block().Dominates(in.Block()) || st.Block() == in.Block() && instrIndex(st) < instrIndex(in)) {
									return true, "the state member was replaced by a fresh map before the write"
								}
							}
						}
						return false, "the map is taken from the state (member " + stateT.Underlying().(*types.Struct).Field(fa.Field).Name() + ") without having been replaced by a fresh one in this function"
					}
					cell := y.X
					if fv, isFV := cell.(*ssa.FreeVar); isFV {
						// a captured local of the enclosing function: follow the binding
						if par := fv.Parent().Parent(); par != nil {
							idx := -1
							for i, q := range fv.Parent().FreeVars {
								if q == fv {
									idx = i
								}
							}
							forEachInstr(par, func(pi ssa.Instruction) {
								if mc, isMC := pi.(*ssa.MakeClosure); isMC && mc.Fn == ssa.Value(fv.Parent()) && idx >= 0 && idx < len(mc.Bindings) {
									cell = mc.Bindings[idx]
								}
							})
						}
					}
					if al, isAl := cell.(*ssa.Alloc); isAl {
						good := false
						refs := append([]ssa.Instruction{}, *al.Referrers()...)
						if fv, isFV := y.X.(*ssa.FreeVar); isFV {
							refs = append(refs, *fv.Referrers()...) // stores made through the captured cell in the closure itself
						}
						for _, u := range refs {
							if st, isSt := u.(*ssa.Store); isSt && (st.Addr == ssa.Value(al) || st.Addr == y.X) {
								if g, why := ok(st.Val, depth+1); !g {
									return false, why
								}
								good = true
							}
						}
						if good {
							return true, "a local holding maps made by this function"
						}
					}
				case *ssa.Parameter, *ssa.FreeVar:
					return false, "the map comes in from outside the function"
				}
				return false, "the map is not one this function made"
			}
			g, why := ok(m, 0)
			if g {
				r.OK(rule, construct, p.pos(in.Pos()), why)
			} else {
				r.Viol(rule, construct, p.pos(in.Pos()), fnShort(fn)+" writes ("+what+") to a map that a saved snapshot of the enumeration state may still refer to — "+why+": doBatch restores a level by copying the saved struct back, which brings back the reference but not the contents, so an outer level continues with the residual policies (or values) of an inner one")
			}
		})
	}
	if n == 0 {
		r.Anchor(rule, "map writes in x/exp/batch")
	}
}

