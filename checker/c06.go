package main

// C06 — partial evaluation is sound for every completion of the unknowns.

import (
	"go/ast"
	"go/token"
	"go/types"
	"sort"
	"strings"

	"golang.org/x/tools/go/ssa"
)

func init() {
	register(&propCheck{
		ID: "C06",
		Explanation: "Structural necessary conditions of partial-evaluation soundness: R6.1 every site that drops a policy (returns keep=false) is guarded by exactly one of the three " +
			"admissible reasons — a scope clause that was evaluated and is false, a condition that folded to a boolean of the wrong polarity, or an ignored part under a forbid policy — and the " +
			"scope wrappers drop only under evaluated ∧ ¬result; every other evaluation error is embedded as an error node and the policy kept; R6.2 the predicate that recognises an unknown " +
			"value inspects every value kind in which the substitution code can place an unknown marker; R6.3 in the partial && / || / if-then-else the later operand is partially evaluated " +
			"only after the first operand's error / non-boolean / deciding-constant cases have returned, deciding constants short-circuit to the right literal, and an error of the undecided " +
			"operand is embedded, never returned (ignore always propagates); R6.4 the partial evaluator's switch is exhaustive and for every kind uses the interpreter's constructor over " +
			"literal operands in order and rebuilds the same kind (documented exceptions: the ignore-aware `has`, and the dedicated && || if functions); the helper builds a literal only " +
			"from a successful evaluation that is neither unknown nor ignore; R6.5 scope resolution returns not-evaluated for an unknown and true for an ignored part before any comparison, and " +
			"each scope kind is computed with the matching operator; R6.6 a residual condition keeps its kind (when/unless); R6.7 the recognisers of the reserved marker types answer from the value's kind and " +
			"the reserved type only — never from a member the marker constructor takes from its caller (an unknown named \"\" is still an unknown). Not decided: residual ≡ original under all completions.",
		Run: runC06,
	})
}

func runC06(p *Prog, r *Report) {
	c6DropSites(p, r)
	c6MarkerCoverage(p, r)
	c6MarkerRecognisers(p, r)
	c6ShortCircuit(p, r)
	c6ConditionKind(p, r)
	c6Table(p, r)
	c6Helper(p, r)
	c6Scope(p, r)
	r.Floor("R6.1-drop-sites", 8)
	r.Floor("R6.3-short-circuit", 12)
	r.Floor("R6.4-table", 60)
	r.Floor("R6.5-scope", 8)
}

// guard classification helpers -------------------------------------------------------------

// errorsIsTest: guard is errors.Is(x, <global>) ; returns (x, global name, polarity).
func errorsIsTest(g Guard) (ssa.Value, string, bool, bool) {
	g = flattenGuard(g)
	c, ok := g.Cond.(*ssa.Call)
	if !ok || c.Call.StaticCallee() == nil || c.Call.StaticCallee().String() != "errors.Is" {
		return nil, "", false, false
	}
	name := ""
	if ld, ok := c.Call.Args[1].(*ssa.UnOp); ok && ld.Op == token.MUL {
		if gl, ok := ld.X.(*ssa.Global); ok {
			name = gl.Name()
		}
	}
	return c.Call.Args[0], name, g.Pol, name != ""
}

func c6DropSites(p *Prog, r *Report) {
	const rule = "R6.1-drop-sites"
	fn := p.fn(pEval, "PartialPolicy")
	if fn == nil {
		r.Anchor(rule, "eval.PartialPolicy")
		return
	}
	q := fnQual(fn)
	nDrop, nKeep := 0, 0
	for _, b := range fn.Blocks {
		ret, ok := lastInstr(b).(*ssa.Return)
		if !ok || len(ret.Results) != 2 {
			continue
		}
		keep, isC := constBool(retVal(ret, 1))
		if !isC {
			r.Undec(rule, q+":return", p.pos(ret.Pos()), "keep result is not a constant")
			continue
		}
		if keep {
			nKeep++
			continue
		}
		nDrop++
		gs := guardsAt(b)
		reason := ""
		// T1: a scope wrapper said "do not keep"
		for _, g := range gs {
			g = flattenGuard(g)
			if ex, ok := g.Cond.(*ssa.Extract); ok && !g.Pol && ex.Index == 1 {
				if c, ok := ex.Tuple.(*ssa.Call); ok && c.Call.StaticCallee() != nil && strings.HasPrefix(c.Call.StaticCallee().Name(), "partial") && strings.HasSuffix(c.Call.StaticCallee().Name(), "Scope") {
					reason = "scope clause evaluated to false (" + c.Call.StaticCallee().Name() + ")"
				}
			}
			// the spilled form: keep variable loaded
			if ld, ok := g.Cond.(*ssa.UnOp); ok && ld.Op == token.MUL && !g.Pol {
				if a, ok := ld.X.(*ssa.Alloc); ok {
					for _, ref := range *a.Referrers() {
						if st, ok := ref.(*ssa.Store); ok && st.Addr == a && st.Block() == ld.Block() {
							if ex, ok := st.Val.(*ssa.Extract); ok && ex.Index == 1 {
								if c, ok := ex.Tuple.(*ssa.Call); ok && c.Call.StaticCallee() != nil && strings.HasSuffix(c.Call.StaticCallee().Name(), "Scope") {
									reason = "scope clause evaluated to false (" + c.Call.StaticCallee().Name() + ")"
								}
							}
						}
					}
				}
			}
		}
		// T2: ignore under forbid
		if reason == "" {
			ignore, notPermit := false, false
			for _, g := range gs {
				if _, name, pol, ok := errorsIsTest(g); ok && name == "errIgnore" && pol {
					ignore = true
				}
				if permit, ok := effectTest(g); ok && !permit {
					notPermit = true
				}
			}
			if ignore && notPermit {
				reason = "ignored part under a forbid policy"
			}
		}
		// T3: condition folded to a boolean of the wrong polarity
		if reason == "" {
			isValue, isBool, mismatch := false, false, false
			for _, g := range gs {
				g = flattenGuard(g)
				if ex, ok := g.Cond.(*ssa.Extract); ok && g.Pol && ex.Index == 1 {
					if ta, ok := ex.Tuple.(*ssa.TypeAssert); ok {
						if typeIs(ta.AssertedType, pXAst, "NodeValue") {
							isValue = true
						}
						if typeIs(ta.AssertedType, pTypes, "Boolean") {
							isBool = true
						}
					}
				}
				if bo, ok := g.Cond.(*ssa.BinOp); ok && (bo.Op == token.NEQ || bo.Op == token.EQL) {
					// bool(b) != bool(c.Condition)
					bt := func(v ssa.Value) bool {
						b, ok := v.Type().Underlying().(*types.Basic)
						return ok && b.Kind() == types.Bool
					}
					if bt(bo.X) && bt(bo.Y) {
						neq := g.Pol
						if bo.Op == token.EQL {
							neq = !neq
						}
						if neq && (derivesFromConditionKind(bo.X) || derivesFromConditionKind(bo.Y)) {
							mismatch = true
						}
					}
				}
			}
			if isValue && isBool && mismatch {
				reason = "condition folded to a boolean that contradicts its when/unless kind"
			}
		}
		if reason == "" {
			r.Viol(rule, q+":drop", p.pos(ret.Pos()), "the policy is dropped (keep=false) on a path that establishes none of: scope evaluated false; condition folded to the wrong boolean; ignore under forbid — an unsound drop removes a policy that may be satisfied")
		} else {
			r.OK(rule, q+":drop:"+reason, p.pos(ret.Pos()), "admissible drop: "+reason)
		}
	}
	r.Check(nDrop >= 5 && nKeep >= 2, rule, q+":sites", p.pos(fn.Pos()), itoa(nDrop)+" drop sites, "+itoa(nKeep)+" keep sites", "expected the three scope drops, the ignore drop and the boolean drop, plus keep sites; found "+itoa(nDrop)+" drops / "+itoa(nKeep)+" keeps")
	// errors other than variable/ignore are embedded: extError result stored into a kept policy; no return of the raw error (function has no error result): check extError is called
	emb := 0
	for _, c := range callsIn(fn) {
		if isCallTo(c, pEval, "extError") {
			emb++
		}
	}
	r.Check(emb >= 1, rule, q+":embed-errors", p.pos(fn.Pos()), "evaluation errors are embedded as error nodes in a kept policy", "evaluation errors of a condition are no longer embedded as error nodes")
	// scope wrappers
	for _, name := range []string{"partialPrincipalScope", "partialActionScope", "partialResourceScope"} {
		w := p.fn(pEval, name)
		if w == nil {
			r.Anchor(rule, "eval."+name)
			continue
		}
		var se *ssa.Call
		for _, c := range callsIn(w) {
			if isCallTo(c, pEval, "partialScopeEval") {
				se, _ = c.(*ssa.Call)
			}
		}
		if se == nil {
			r.Viol(rule, "eval."+name, p.pos(w.Pos()), "does not resolve the scope through partialScopeEval")
			continue
		}
		evaled, result := extractOf(se, 0), extractOf(se, 1)
		good := true
		drops := 0
		for _, b := range w.Blocks {
			ret, ok := lastInstr(b).(*ssa.Return)
			if !ok {
				continue
			}
			keep, isC := constBool(retVal(ret, 1))
			if !isC {
				good = false
				continue
			}
			gs := guardsAt(b)
			ev, evK, rs, rsK := false, false, false, false
			for _, g := range gs {
				if v, k := boolTest(g, evaled); k {
					ev, evK = v, true
				}
				if v, k := boolTest(g, result); k {
					rs, rsK = v, true
				}
			}
			if !keep {
				drops++
				if !(evK && ev && rsK && !rs) {
					good = false
				}
			} else {
				// kept as All only under evaled && result; otherwise the original scope is returned
				if sc := stripConv(retVal(ret, 0)); isScopeAllValue(sc) {
					if !(evK && ev && rsK && rs) {
						good = false
					}
				}
			}
		}
		r.Check(good && drops == 1, rule, "eval."+name, p.pos(w.Pos()), "drops only under evaluated && !result; widens to All only under evaluated && result", name+" drops or widens a scope clause under conditions other than (evaluated && !result) / (evaluated && result)")
	}
}

func isScopeAllValue(v ssa.Value) bool {
	switch x := v.(type) {
	case *ssa.UnOp:
		if x.Op == token.MUL {
			if a, ok := x.X.(*ssa.Alloc); ok {
				return typeIs(a.Type(), pXAst, "ScopeTypeAll")
			}
		}
	case *ssa.Const:
		return typeIs(x.Type(), pXAst, "ScopeTypeAll")
	}
	return typeIs(v.Type(), pXAst, "ScopeTypeAll")
}

func derivesFromConditionKind(v ssa.Value) bool {
	for _, l := range leavesOf(v) {
		_ = l
	}
	seen := map[ssa.Value]bool{}
	var rec func(x ssa.Value) bool
	rec = func(x ssa.Value) bool {
		if seen[x] {
			return false
		}
		seen[x] = true
		if typeIs(x.Type(), pXAst, "Condition") {
			return true
		}
		switch y := x.(type) {
		case *ssa.Convert:
			return rec(y.X)
		case *ssa.ChangeType:
			return rec(y.X)
		case *ssa.UnOp:
			return rec(y.X)
		}
		return false
	}
	return rec(v)
}

// R6.2: kinds inspected by IsVariable vs kinds the substitution code descends into.
func c6MarkerCoverage(p *Prog, r *Report) {
	const rule = "R6.2-marker-coverage"
	isVar := p.fn(pEval, "IsVariable")
	if isVar == nil {
		r.Anchor(rule, "eval.IsVariable")
		return
	}
	inspected := map[string]bool{}
	forEachInstr(isVar, func(in ssa.Instruction) {
		if ta, ok := in.(*ssa.TypeAssert); ok {
			inspected[valueKindName(ta.AssertedType)] = true
		}
	})
	// substitution: type switches over types.Value in batch.cloneSub / findVariables
	placed := map[string]bool{}
	for _, fname := range []string{"cloneSub", "findVariables"} {
		for _, ti := range p.findTypeSwitch(pBatch, fname, "Value") {
			for _, t := range ti.Cases {
				placed[valueKindName(t)] = true
			}
		}
	}
	if len(placed) == 0 {
		r.Anchor(rule, "batch.cloneSub / batch.findVariables type switches")
		return
	}
	var missing []string
	for k := range placed {
		if !inspected[k] {
			missing = append(missing, k)
		}
	}
	sort.Strings(missing)
	r.Check(len(missing) == 0, rule, "eval.IsVariable~batch.cloneSub", p.pos(isVar.Pos()), "the unknown-value predicate inspects every kind that can carry a marker",
		"unknown markers can be nested inside ["+strings.Join(missing, ",")+"] values (the substitution code descends into them) but the predicate that decides `this evaluated value is still unknown` inspects only ["+strings.Join(sortedKeys(inspected), ",")+"]: a composite containing an unknown is treated as a concrete value, so e.g. `context == {..}` is decided — and the policy possibly dropped — before the unknown is bound")
}

// R6.3
func c6ShortCircuit(p *Prog, r *Report) {
	const rule = "R6.3-short-circuit"
	partial := p.fn(pEval, "partial")
	if partial == nil {
		r.Anchor(rule, "eval.partial")
		return
	}
	type spec struct {
		fn        string
		first     string   // field of the first operand
		later     []string // fields evaluated after the decision
		shortOn   string   // "isFalse" for &&, "isTrue" for ||: constant result
		shortVal  bool
		recurseOn string // the other constant: continues with the interpreter's constructor
		ctor      string
	}
	for _, s := range []spec{
		{"partialAnd", "Left", []string{"Right"}, "isFalse", false, "isTrue", "newAndEval"},
		{"partialOr", "Left", []string{"Right"}, "isTrue", true, "isFalse", "newOrEval"},
		{"partialIfThenElse", "If", []string{"Then", "Else"}, "", false, "", ""},
	} {
		fn := p.fn(pEval, s.fn)
		if fn == nil {
			r.Anchor(rule, "eval."+s.fn)
			continue
		}
		q := fnQual(fn)
		// calls partial(env, v.F)
		callsByField := map[string][]*ssa.Call{}
		for _, c := range callsIn(fn) {
			call, ok := c.(*ssa.Call)
			if !ok || call.Call.StaticCallee() != partial {
				continue
			}
			f := fieldNameOfParamLoad(call.Call.Args[1], fn.Params[1])
			callsByField[f] = append(callsByField[f], call)
		}
		first := callsByField[s.first]
		if len(first) != 1 {
			r.Undec(rule, q+":first", p.pos(fn.Pos()), "cannot find the partial evaluation of the first operand")
			continue
		}
		firstErr := extractOf(first[0], 1)
		firstNode := extractOf(first[0], 0)
		// tests on the first operand
		type test struct {
			name string
			iff  *ssa.If
			pol  bool // polarity of the edge on which the named fact holds
		}
		var tests []test
		for _, b := range fn.Blocks {
			iff, ok := lastInstr(b).(*ssa.If)
			if !ok {
				continue
			}
			g := flattenGuard(Guard{Cond: iff.Cond, Pol: true, If: iff})
			if x, name, pol, ok := errorsIsTest(g); ok && x == firstErr {
				tests = append(tests, test{"is:" + name, iff, pol})
				continue
			}
			if nn, k := nilTest(g, firstErr); k {
				_ = nn
				tests = append(tests, test{"err!=nil", iff, nn == g.Pol || true})
				continue
			}
			if c, ok := g.Cond.(*ssa.Call); ok && c.Call.StaticCallee() != nil && fnPkgPath(c.Call.StaticCallee()) == pEval && len(c.Call.Args) == 1 && c.Call.Args[0] == firstNode {
				tests = append(tests, test{c.Call.StaticCallee().Name(), iff, g.Pol})
			}
		}
		succOf := func(t test, holds bool) *ssa.BasicBlock {
			// block taken when the named fact holds
			g := flattenGuard(Guard{Cond: t.iff.Cond, Pol: true, If: t.iff})
			truthOfCondWhenFactHolds := g.Pol
			if t.name == "err!=nil" {
				nn, _ := nilTest(Guard{Cond: t.iff.Cond, Pol: true, If: t.iff}, firstErr)
				truthOfCondWhenFactHolds = nn
			}
			if !holds {
				truthOfCondWhenFactHolds = !truthOfCondWhenFactHolds
			}
			if truthOfCondWhenFactHolds {
				return t.iff.Block().Succs[0]
			}
			return t.iff.Block().Succs[1]
		}
		find := func(name string) *test {
			for i := range tests {
				if tests[i].name == name {
					return &tests[i]
				}
			}
			return nil
		}
		laterBlocks := map[*ssa.BasicBlock]bool{}
		for _, f := range s.later {
			for _, c := range callsByField[f] {
				laterBlocks[c.Block()] = true
			}
		}
		reachesLater := func(from *ssa.BasicBlock) bool {
			for b := range laterBlocks {
				if reachable(from, b) {
					return true
				}
			}
			return false
		}
		// (a) error / non-bool exits do not evaluate the later operand
		for _, name := range []string{"err!=nil", "isNonBoolValue"} {
			t := find(name)
			if t == nil {
				r.Viol(rule, q+":"+name, p.pos(fn.Pos()), "the `"+name+"` case of the first operand is not tested before the later operand is evaluated")
				continue
			}
			sb := succOf(*t, true)
			bad := false
			if name == "err!=nil" {
				// after excluding the unknown case the error must be returned
				bad = !returnsErrorDerived(sb, firstErr)
			} else {
				bad = !returnsTypeError(p, sb)
			}
			// for if-then-else the branches are evaluated on the deciding edges, so only the undecided path counts
			if s.fn != "partialIfThenElse" && reachesLater(sb) {
				bad = true
			}
			r.Check(!bad, rule, q+":"+name, p.pos(t.iff.Pos()), "`"+name+"` returns before the later operand is looked at", "in "+s.fn+" the `"+name+"` case of the first operand does not return the error before the later operand is evaluated")
		}
		// (b) unknown first operand falls through to residual construction
		r.Check(find("is:errVariable") != nil, rule, q+":unknown-first", p.pos(fn.Pos()), "an unknown first operand keeps the node", "an unknown first operand is not recognised (errors.Is(err, errVariable))")
		if s.shortOn != "" {
			t := find(s.shortOn)
			if t == nil {
				r.Viol(rule, q+":"+s.shortOn, p.pos(fn.Pos()), "no short-circuit test `"+s.shortOn+"` on the first operand")
			} else {
				sb := succOf(*t, true)
				ok := !reachesLater(sb) && returnsBoolLiteral(sb, s.shortVal)
				r.Check(ok, rule, q+":"+s.shortOn, p.pos(t.iff.Pos()), "a deciding first operand short-circuits to the literal "+boolStr(s.shortVal, "true", "false"), "when the first operand "+s.shortOn+", "+s.fn+" must return the literal "+boolStr(s.shortVal, "true", "false")+" without evaluating the other operand")
			}
			t2 := find(s.recurseOn)
			if t2 == nil {
				r.Viol(rule, q+":"+s.recurseOn, p.pos(fn.Pos()), "no test `"+s.recurseOn+"` on the first operand")
			} else {
				sb := succOf(*t2, true)
				usesCtor := false
				for _, in := range sb.Instrs {
					if c, ok := in.(*ssa.Call); ok && isCallTo(c, pEval, "tryPartialBinary") {
						for _, a := range c.Call.Args {
							if f, ok := a.(*ssa.Function); ok && f.Name() == s.ctor {
								usesCtor = true
							}
							if mc, ok := a.(*ssa.MakeClosure); ok {
								_ = mc
							}
						}
					}
				}
				r.Check(usesCtor, rule, q+":"+s.recurseOn, p.pos(t2.iff.Pos()), "a non-deciding constant first operand continues with the interpreter's "+s.ctor, "when the first operand "+s.recurseOn+", "+s.fn+" must continue through the interpreter's "+s.ctor+" (so the other operand is still required to be boolean)")
			}
		} else {
			// if-then-else: isTrue -> partial(Then), isFalse -> partial(Else), returned directly
			for name, fld := range map[string]string{"isTrue": "Then", "isFalse": "Else"} {
				t := find(name)
				if t == nil {
					r.Viol(rule, q+":"+name, p.pos(fn.Pos()), "no test `"+name+"` on the condition")
					continue
				}
				sb := succOf(*t, true)
				good := false
				for _, in := range sb.Instrs {
					if c, ok := in.(*ssa.Call); ok && c.Call.StaticCallee() == partial && fieldNameOfParamLoad(c.Call.Args[1], fn.Params[1]) == fld {
						if _, isRet := lastInstr(sb).(*ssa.Return); isRet {
							good = true
						}
					}
				}
				r.Check(good, rule, q+":"+name, p.pos(t.iff.Pos()), "a constant condition selects the "+fld+" branch", "when the condition "+name+", partialIfThenElse must return the partial evaluation of "+fld)
			}
		}
		// (b') every successful return is one of: the deciding literal, the tail of the dedicated continuation, or the residual
		// node of the same kind rebuilt around the partially evaluated first operand
		kindOf := map[string]string{"partialAnd": "NodeTypeAnd", "partialOr": "NodeTypeOr", "partialIfThenElse": "NodeTypeIfThenElse"}[s.fn]
		for _, b := range fn.Blocks {
			ret, ok := lastInstr(b).(*ssa.Return)
			if !ok || len(ret.Results) != 2 || !isNilConst(retLast(ret)) {
				continue
			}
			v := stripConv(retVal(ret, 0))
			shape := "other"
			if ld, ok := v.(*ssa.UnOp); ok && ld.Op == token.MUL {
				if a, ok := ld.X.(*ssa.Alloc); ok {
					if n := namedOf(a.Type()); n != nil {
						shape = n.Obj().Name()
						// the residual must contain the first operand's partial result
						if shape == kindOf {
							hasFirst := false
							var walk func(al *ssa.Alloc, depth int)
							walk = func(al *ssa.Alloc, depth int) {
								if depth > 3 {
									return
								}
								for _, ref := range *al.Referrers() {
									fa, ok := ref.(*ssa.FieldAddr)
									if !ok {
										continue
									}
									for _, rr := range *fa.Referrers() {
										switch y := rr.(type) {
										case *ssa.Store:
											if stripConv(y.Val) == ssa.Value(firstNode) {
												hasFirst = true
											}
											if ld2, ok := stripConv(y.Val).(*ssa.UnOp); ok && ld2.Op == token.MUL {
												if a2, ok := ld2.X.(*ssa.Alloc); ok {
													walk(a2, depth+1)
												}
											}
										case *ssa.FieldAddr:
											for _, r3 := range *y.Referrers() {
												if st, ok := r3.(*ssa.Store); ok && stripConv(st.Val) == ssa.Value(firstNode) {
													hasFirst = true
												}
											}
										}
									}
								}
							}
							walk(a, 0)
							if !hasFirst {
								shape = kindOf + "(without the first operand)"
							}
						}
					}
				}
			}
			if ex, ok := v.(*ssa.Extract); ok {
				if c, ok := ex.Tuple.(*ssa.Call); ok && c.Call.StaticCallee() != nil {
					shape = "tail:" + c.Call.StaticCallee().Name()
				}
			}
			allowed := shape == kindOf || shape == "NodeValue" || shape == "tail:tryPartialBinary" || shape == "tail:partial"
			r.Check(allowed, rule, q+":result-shape:"+shape, p.pos(ret.Pos()), "successful result is "+shape, s.fn+" returns a successful result of shape `"+shape+"`: with an undecided first operand only the rebuilt "+kindOf+" (which keeps that operand, and with it its possible error) is sound")
			if shape == "NodeValue" {
				// a literal result is only admissible under a deciding constant test of the first operand
				under := false
				for _, g := range guardsAt(b) {
					fg := flattenGuard(g)
					if c, ok := fg.Cond.(*ssa.Call); ok && fg.Pol && c.Call.StaticCallee() != nil && (c.Call.StaticCallee().Name() == "isTrue" || c.Call.StaticCallee().Name() == "isFalse") && len(c.Call.Args) == 1 && c.Call.Args[0] == ssa.Value(firstNode) {
						under = true
					}
				}
				r.Check(under, rule, q+":literal-only-when-decided", p.pos(ret.Pos()), "a literal result is returned only when the first operand is a deciding constant", s.fn+" returns a literal although the first operand has not been shown to be a deciding constant (its error or non-boolean value would be lost)")
			}
		}
		// (c) later operands: ignore propagates, other errors are embedded (never returned)
		for _, f := range s.later {
			var undecided *ssa.Call
			for _, c := range callsByField[f] {
				// the call on the undecided path: the one not directly returned
				tail := false
				for _, ref := range *c.Referrers() {
					if _, ok := ref.(*ssa.Return); ok {
						tail = true
					}
					if ex, ok := ref.(*ssa.Extract); ok && ex.Referrers() != nil {
						for _, rr := range *ex.Referrers() {
							if _, ok := rr.(*ssa.Return); ok && rr.Block() == c.Block() {
								tail = true
							}
						}
					}
				}
				if !tail {
					undecided = c
				}
			}
			if undecided == nil {
				r.Viol(rule, q+":later:"+f, p.pos(fn.Pos()), "operand "+f+" is not partially evaluated on the undecided path")
				continue
			}
			ev := extractOf(undecided, 1)
			ignoreRet, embedded, leaked := false, false, false
			for _, b := range fn.Blocks {
				ret, ok := lastInstr(b).(*ssa.Return)
				if !ok || len(ret.Results) != 2 {
					continue
				}
				if retVal(ret, 1) == ssa.Value(ev) {
					under := false
					for _, g := range guardsAt(b) {
						if x, name, pol, ok := errorsIsTest(g); ok && x == ev && name == "errIgnore" && pol {
							under = true
						}
					}
					if under {
						ignoreRet = true
					} else {
						leaked = true
					}
				}
			}
			for _, c := range callsIn(fn) {
				if isCallTo(c, pEval, "extError") && len(c.Common().Args) == 1 && c.Common().Args[0] == ssa.Value(ev) {
					embedded = true
				}
			}
			r.Check(ignoreRet && embedded && !leaked, rule, q+":later:"+f, p.pos(undecided.Pos()), "operand "+f+": ignore propagates, other errors become error nodes", "in "+s.fn+" an error of the not-yet-decided operand "+f+" must be embedded as an error node (only `ignore` may be returned); found ignore-returned="+boolStr(ignoreRet, "y", "n")+" embedded="+boolStr(embedded, "y", "n")+" returned-raw="+boolStr(leaked, "y", "n"))
		}
	}
}

func fieldNameOfParamLoad(v ssa.Value, prm *ssa.Parameter) string {
	v = stripConv(v)
	switch x := v.(type) {
	case *ssa.UnOp:
		if x.Op == token.MUL {
			return fieldNameOfAddr(x.X, prm)
		}
	case *ssa.Field:
		return fieldNameOfField(x, prm)
	}
	return ""
}

func fieldNameOfAddr(a ssa.Value, prm *ssa.Parameter) string {
	fa, ok := a.(*ssa.FieldAddr)
	if !ok {
		return ""
	}
	st, ok := fa.X.Type().Underlying().(*types.Pointer).Elem().Underlying().(*types.Struct)
	if !ok {
		return ""
	}
	name := st.Field(fa.Field).Name()
	// base must be the parameter (spilled) or a nested field of it
	base := fa.X
	for {
		if inner, ok := base.(*ssa.FieldAddr); ok {
			base = inner.X
			continue
		}
		break
	}
	if al, ok := base.(*ssa.Alloc); ok {
		for _, ref := range *al.Referrers() {
			if s, ok := ref.(*ssa.Store); ok && s.Addr == al && s.Val == ssa.Value(prm) {
				return name
			}
		}
	}
	return ""
}

func fieldNameOfField(f *ssa.Field, prm *ssa.Parameter) string {
	st, ok := f.X.Type().Underlying().(*types.Struct)
	if !ok {
		return ""
	}
	x := f.X
	for {
		if inner, ok := x.(*ssa.Field); ok {
			x = inner.X
			continue
		}
		break
	}
	if x == ssa.Value(prm) {
		return st.Field(f.Field).Name()
	}
	return ""
}

func returnsErrorDerived(b *ssa.BasicBlock, errv ssa.Value) bool {
	// every path from b returns with a non-nil error that is errv
	ok := true
	seen := map[*ssa.BasicBlock]bool{}
	var walk func(x *ssa.BasicBlock)
	walk = func(x *ssa.BasicBlock) {
		if seen[x] {
			return
		}
		seen[x] = true
		if ret, isRet := lastInstr(x).(*ssa.Return); isRet {
			if retLast(ret) != errv {
				ok = false
			}
			return
		}
		if len(x.Succs) == 0 {
			return
		}
		for _, s := range x.Succs {
			walk(s)
		}
	}
	walk(b)
	return ok
}

func returnsTypeError(p *Prog, b *ssa.BasicBlock) bool {
	ret, ok := lastInstr(b).(*ssa.Return)
	if !ok {
		return false
	}
	last := retLast(ret)
	return isErrorType(last.Type()) && !isNilConst(last) && derivesFromGlobal(last, p.SSAPkg[pEval].Var("ErrType"))
}

func returnsBoolLiteral(b *ssa.BasicBlock, want bool) bool {
	ret, ok := lastInstr(b).(*ssa.Return)
	if !ok || len(ret.Results) != 2 || !isNilConst(retLast(ret)) {
		return false
	}
	// NodeValue{Value: types.True/False}
	found := false
	for _, in := range b.Instrs {
		st, ok := in.(*ssa.Store)
		if !ok {
			continue
		}
		v := stripConv(st.Val)
		if cb, isC := constBool(v); isC && cb == want {
			found = true
		}
		if ld, ok := v.(*ssa.UnOp); ok && ld.Op == token.MUL {
			if g, ok := ld.X.(*ssa.Global); ok && ((want && g.Name() == "True") || (!want && g.Name() == "False")) {
				found = true
			}
		}
	}
	return found
}

// R6.4 the partial evaluator's table
func c6Table(p *Prog, r *Report) {
	const rule = "R6.4-table"
	tss := p.findTypeSwitch(pEval, "partial", "IsNode")
	if len(tss) != 1 {
		r.Anchor(rule, "eval.partial type switch over ast.IsNode")
		return
	}
	ti := tss[0]
	p.requireExhaustive(r, rule, ti)
	info := ti.Pkg.TypesInfo
	disp := dispatchCtors(p)
	dedicated := map[string]string{"NodeTypeAnd": "partialAnd", "NodeTypeOr": "partialOr", "NodeTypeIfThenElse": "partialIfThenElse"}
	altCtor := map[string]string{"NodeTypeHas": "newPartialHasEval"} // ignore-aware variant of `has`
	for _, st := range ti.Stmt.Body.List {
		cc := st.(*ast.CaseClause)
		if len(cc.List) != 1 {
			continue
		}
		nk := namedOf(info.Types[cc.List[0]].Type)
		if nk == nil {
			continue
		}
		kind := nk.Obj().Name()
		fc := analyseHelperCase(p, info, ti, cc, kind, "tryPartial", 1)
		q := "eval.partial:" + kind
		pos := p.pos(cc.Pos())
		if d, ok := dedicated[kind]; ok {
			r.Check(fc.helper == "dedicated:"+d, rule, q, pos, "handled by "+d, kind+" must be handled by the short-circuit aware "+d+" (found "+fc.helper+")")
			continue
		}
		if fc.helper == "identity" {
			r.Check(kind == "NodeValue", rule, q, pos, "literals are returned unchanged", kind+" is returned without partial evaluation; only literals may be")
			continue
		}
		if fc.helper == "" || strings.HasPrefix(fc.helper, "dedicated:") {
			r.Undec(rule, q, pos, "case does not use the partial-evaluation helpers in a recognisable way ("+fc.helper+")")
			continue
		}
		rebuildOK := fc.rebuilt == kind
		posOK := true
		for i, f := range fc.inputs {
			if strings.HasSuffix(f, "...") {
				continue
			}
			if idx, ok := fc.rebuiltPos[f]; !ok || idx != i {
				posOK = false
			}
		}
		r.Check(len(fc.rebuiltOther) == 0, rule, q+":rebuild-every-return", pos, "every return of the rebuild closure is a "+kind+" literal",
			"the rebuild closure of "+kind+" can also return "+strings.Join(fc.rebuiltOther, " / ")+": on that path the residual is not the original operator over the partially evaluated children")
		r.Check(rebuildOK && posOK, rule, q+":rebuild", pos, "rebuilds "+fc.rebuilt+" with children in place", "a residual "+kind+" is rebuilt as "+fc.rebuilt+" with children "+describePos(fc.rebuiltPos)+" for inputs ("+strings.Join(fc.inputs, ",")+")")
		want := nonNodeFields(nk)
		var missing []string
		for _, f := range want {
			found := false
			for _, c := range fc.copied {
				if c == f {
					found = true
				}
			}
			if !found {
				missing = append(missing, f)
			}
		}
		r.Check(len(missing) == 0, rule, q+":fields", pos, "non-node fields copied", "the residual "+kind+" does not copy field(s) "+strings.Join(missing, ","))
		dctor := disp[kind]
		if dctor == nil {
			r.Undec(rule, q+":ctor", pos, "no interpreter constructor known")
			continue
		}
		wantName := dctor.Name()
		if a, ok := altCtor[kind]; ok {
			wantName = a
		}
		var names []string
		for _, c := range fc.ctors {
			names = append(names, c.Name())
		}
		r.Check(len(fc.ctors) == 1 && fc.ctors[0].Name() == wantName && fc.literalArg, rule, q+":ctor", pos, "evaluates with "+wantName+" over literal operands in order",
			kind+" is partially evaluated with ["+strings.Join(names, ",")+"]"+boolStr(fc.literalArg, "", " (operands not the literals in order)")+"; expected "+wantName)
	}
}

// tryPartial: literal only from a successful, known, non-ignored evaluation
func c6Helper(p *Prog, r *Report) {
	const rule = "R6.4-table"
	fn := p.fn(pEval, "tryPartial")
	if fn == nil {
		r.Anchor(rule, "eval.tryPartial")
		return
	}
	q := fnQual(fn)
	var evalCall *ssa.Call
	forEachInstr(fn, func(in ssa.Instruction) {
		if c, ok := in.(*ssa.Call); ok && c.Call.IsInvoke() && c.Call.Method.Name() == "Eval" {
			evalCall = c
		}
	})
	if evalCall == nil {
		r.Undec(rule, q, p.pos(fn.Pos()), "no evaluation found")
		return
	}
	val, errv := extractOf(evalCall, 0), extractOf(evalCall, 1)
	// the environment passed is the function's own env parameter
	envOK := len(evalCall.Call.Args) == 1 && originParam(evalCall.Call.Args[0]) == fn.Params[0]
	r.Check(envOK, rule, q+":env", p.pos(evalCall.Pos()), "evaluates in the caller's environment", "tryPartial evaluates in an environment other than the one it was given")
	// literal return: NodeValue{Value: val} under err==nil, !IsVariable(val), !IsIgnore(val)
	good := false
	for _, b := range fn.Blocks {
		ret, ok := lastInstr(b).(*ssa.Return)
		if !ok || !isNilConst(retLast(ret)) {
			continue
		}
		usesVal := false
		for _, in := range b.Instrs {
			if st, ok := in.(*ssa.Store); ok && st.Val == ssa.Value(val) {
				usesVal = true
			}
		}
		if !usesVal {
			continue
		}
		errNil, notVar, notIgn := false, false, false
		for _, g := range guardsAt(b) {
			if nn, k := nilTest(g, errv); k && !nn {
				errNil = true
			}
			gg := flattenGuard(g)
			if c, ok := gg.Cond.(*ssa.Call); ok && !gg.Pol && len(c.Call.Args) == 1 && c.Call.Args[0] == ssa.Value(val) {
				if isCallTo(c, pEval, "IsVariable") {
					notVar = true
				}
				if isCallTo(c, pEval, "IsIgnore") {
					notIgn = true
				}
			}
		}
		good = errNil && notVar && notIgn
	}
	r.Check(good, rule, q+":literal", p.pos(evalCall.Pos()), "a literal is produced only from a successful evaluation that is neither unknown nor ignore", "tryPartial builds a literal from an evaluation result without having excluded error / unknown / ignore")
	// every child is partially evaluated: the loop over the operands is a full range, each iteration calls partial on the
	// current operand, and the loop is left only by exhaustion or by returning a non-nil error
	partialFn := p.fn(pEval, "partial")
	var pc *ssa.Call
	for _, c := range callsIn(fn) {
		if c.Common().StaticCallee() == partialFn {
			pc, _ = c.(*ssa.Call)
		}
	}
	loopOK := false
	if pc != nil {
		if loop := innermostLoop(loopsOf(fn), pc.Block()); loop != nil {
			loopOK = true
			full := false
			if ld, ok := pc.Call.Args[1].(*ssa.UnOp); ok && ld.Op == token.MUL {
				if ia, ok := ld.X.(*ssa.IndexAddr); ok && isFullRangeLoopIdx(loop, ia.Index, ia.X) && ia.X == ssa.Value(fn.Params[1]) {
					full = true
				}
			}
			if !full {
				loopOK = false
			}
			for _, s := range loop.Header.Succs {
				if loop.Body[s] && reachableAvoiding(s, loop.Header, map[*ssa.BasicBlock]bool{pc.Block(): true}) {
					loopOK = false
				}
			}
			for _, e := range loop.exitEdges() {
				if e[0] == loop.Header {
					continue
				}
				okExit := false
				if e[1] != nil {
					if ret, isRet := lastInstr(e[1]).(*ssa.Return); isRet {
						last := retLast(ret)
						if isErrorType(last.Type()) && !isNilConst(last) {
							okExit = true
						}
					}
				}
				if !okExit {
					loopOK = false
				}
			}
		}
	}
	r.Check(loopOK, rule, q+":all-operands", p.pos(fn.Pos()), "every operand is partially evaluated (no early exit except on error)", "tryPartial can leave its operand loop without partially evaluating every operand (an `ignore` or an error in a later operand would go unnoticed once an earlier operand is unknown)")
	// children's errors: variable => keep going; anything else returned
	m := p.modref()
	if s := m.sums[fn]; s != nil {
		onlyP1 := true
		for k := range s.writes {
			if !(k.Kind == okParam && k.Idx == 1 && !k.Deep) {
				onlyP1 = false
			}
		}
		r.Check(onlyP1, rule, q+":writes", p.pos(fn.Pos()), "writes only the slice it is given", "tryPartial writes memory other than its slice argument")
	}
}

// R6.5 partialScopeEval
func c6Scope(p *Prog, r *Report) {
	const rule = "R6.5-scope"
	fn := p.fn(pEval, "partialScopeEval")
	if fn == nil {
		r.Anchor(rule, "eval.partialScopeEval")
		return
	}
	q := fnQual(fn)
	ent := fn.Params[1]
	// first: IsVariable(ent) -> (false,false); IsIgnore(ent) -> (true,true); both before the type switch
	var firstCmp ssa.Instruction
	forEachInstr(fn, func(in ssa.Instruction) {
		if firstCmp != nil {
			return
		}
		switch x := in.(type) {
		case *ssa.BinOp:
			if x.Op == token.EQL && typeIs(x.X.Type(), pTypes, "EntityUID") || x.Op == token.EQL && typeIs(x.X.Type(), pTypes, "EntityType") {
				firstCmp = x
			}
		case *ssa.Call:
			if f := x.Call.StaticCallee(); f != nil && (strings.HasPrefix(f.Name(), "entityIn")) {
				firstCmp = x
			}
		}
	})
	checkMarker := func(pred string, wantEvaled, wantResult bool) {
		good := false
		for _, c := range callsIn(fn) {
			call, ok := c.(*ssa.Call)
			if !ok || !isCallTo(call, pEval, pred) || call.Call.Args[0] != ssa.Value(ent) {
				continue
			}
			for _, ref := range *call.Referrers() {
				iff, ok := ref.(*ssa.If)
				if !ok {
					continue
				}
				tb := iff.Block().Succs[0]
				if ret, ok := lastInstr(tb).(*ssa.Return); ok {
					e, ek := constBool(retVal(ret, 0))
					rs, rk := constBool(retVal(ret, 1))
					if ek && rk && e == wantEvaled && rs == wantResult {
						good = true
					}
				}
			}
		}
		r.Check(good, rule, q+":"+pred, p.pos(fn.Pos()), pred+" => (evaluated="+boolStr(wantEvaled, "true", "false")+", result="+boolStr(wantResult, "true", "false")+")",
			"partialScopeEval must return (evaluated="+boolStr(wantEvaled, "true", "false")+", result="+boolStr(wantResult, "true", "false")+") when the request part "+pred)
	}
	checkMarker("IsVariable", false, false)
	checkMarker("IsIgnore", true, true)
	_ = firstCmp
	// per-kind computation
	tss := p.findTypeSwitch(pEval, "partialScopeEval", "IsScopeNode")
	if len(tss) != 1 {
		r.Anchor(rule, "partialScopeEval type switch")
		return
	}
	ti := tss[0]
	p.requireExhaustive(r, rule, ti)
	info := ti.Pkg.TypesInfo
	want := map[string][]string{
		"ScopeTypeAll":   {},
		"ScopeTypeEq":    {"==:Entity"},
		"ScopeTypeIn":    {"entityInOne:Entity"},
		"ScopeTypeInSet": {"entityInSet:Entities"},
		"ScopeTypeIs":    {"==:Type"},
		"ScopeTypeIsIn":  {"==:Type", "entityInOne:Entity"},
	}
	for _, st := range ti.Stmt.Body.List {
		cc := st.(*ast.CaseClause)
		if len(cc.List) != 1 {
			continue
		}
		n := namedOf(info.Types[cc.List[0]].Type)
		if n == nil {
			continue
		}
		var got []string
		ast.Inspect(cc, func(nd ast.Node) bool {
			switch x := nd.(type) {
			case *ast.BinaryExpr:
				if x.Op == token.EQL {
					for _, side := range []ast.Expr{x.X, x.Y} {
						if sel, ok := side.(*ast.SelectorExpr); ok {
							if s, ok := info.Selections[sel]; ok && s.Kind() == types.FieldVal {
								if rn := namedOf(s.Recv()); rn != nil && rn.Obj().Name() == n.Obj().Name() {
									got = append(got, "==:"+sel.Sel.Name)
								}
							}
						}
					}
				} else if x.Op == token.NEQ || x.Op == token.LOR {
					got = append(got, "op:"+x.Op.String())
				}
			case *ast.CallExpr:
				if o := calleeObj(info, x); o != nil && strings.HasPrefix(o.Name(), "entityIn") {
					fld := ""
					ast.Inspect(x, func(m ast.Node) bool {
						if sel, ok := m.(*ast.SelectorExpr); ok {
							if s, ok := info.Selections[sel]; ok && s.Kind() == types.FieldVal {
								if rn := namedOf(s.Recv()); rn != nil && rn.Obj().Name() == n.Obj().Name() {
									fld = sel.Sel.Name
								}
							}
						}
						return true
					})
					if fld == "" {
						// the argument was prepared in a preceding statement of the same case
						ast.Inspect(cc, func(m ast.Node) bool {
							if sel, ok := m.(*ast.SelectorExpr); ok {
								if s, ok := info.Selections[sel]; ok && s.Kind() == types.FieldVal {
									if rn := namedOf(s.Recv()); rn != nil && rn.Obj().Name() == n.Obj().Name() {
										fld = sel.Sel.Name
									}
								}
							}
							return true
						})
					}
					got = append(got, o.Name()+":"+fld)
				}
			}
			return true
		})
		sort.Strings(got)
		w := append([]string{}, want[n.Obj().Name()]...)
		sort.Strings(w)
		r.Check(strings.Join(got, ",") == strings.Join(w, ","), rule, q+":"+n.Obj().Name(), p.pos(cc.Pos()), "computed as ["+strings.Join(got, " && ")+"]",
			"scope kind "+n.Obj().Name()+" is resolved as ["+strings.Join(got, ",")+"], the language prescribes ["+strings.Join(w, ",")+"]")
	}
}

// R6.6 the residual keeps the clause kind: every condition PartialPolicy puts into the residual policy is either the
// original clause or a new clause whose kind (when / unless) is read from the original clause. A constant kind turns a
// partially evaluated `unless { … }` into a `when { … }`, i.e. inverts it.
func c6ConditionKind(p *Prog, r *Report) {
	const rule = "R6.6-condition-kind"
	fn := p.fn(pEval, "PartialPolicy")
	if fn == nil {
		r.Anchor(rule, "eval.PartialPolicy")
		return
	}
	q := fnQual(fn)
	// the clause being visited: the element of the range over p.Conditions
	isFromClause := func(v ssa.Value) bool {
		for _, l := range leavesOf(v) {
			if ld, ok := l.(*ssa.UnOp); ok && ld.Op == token.MUL {
				l = ld.X
			}
			_ = l
		}
		// a load of field Condition of something that is an element of a []ConditionType
		found := false
		var walk func(x ssa.Value, d int)
		walk = func(x ssa.Value, d int) {
			if d > 6 || found {
				return
			}
			switch y := x.(type) {
			case *ssa.UnOp:
				walk(y.X, d+1)
			case *ssa.FieldAddr:
				if _, f := fieldAddrName(y); f == "Condition" {
					if _, isIdx := baseOf(y.X).(*ssa.IndexAddr); isIdx {
						found = true
						return
					}
					// element copied into a local first
					walk(y.X, d+1)
				}
			case *ssa.Field:
				if st := structOf(y.X.Type()); st != nil && st.Field(y.Field).Name() == "Condition" {
					walk(y.X, d+1)
				}
			case *ssa.Alloc:
				if y.Referrers() != nil {
					for _, rf := range *y.Referrers() {
						if st, ok := rf.(*ssa.Store); ok && st.Addr == ssa.Value(y) {
							walk(st.Val, d+1)
						}
					}
				}
			case *ssa.IndexAddr:
				if sl, ok := y.X.Type().Underlying().(*types.Slice); ok && typeIs(sl.Elem(), pXAst, "ConditionType") {
					found = true
				}
			case *ssa.ChangeType:
				walk(y.X, d+1)
			case *ssa.Convert:
				walk(y.X, d+1)
			}
		}
		walk(v, 0)
		return found
	}
	n := 0
	forEachInstr(fn, func(in ssa.Instruction) {
		app, ok := in.(*ssa.Call)
		if !ok || !isBuiltin(&app.Call, "append") {
			return
		}
		sl, ok := app.Type().Underlying().(*types.Slice)
		if !ok || !typeIs(sl.Elem(), pXAst, "ConditionType") {
			return
		}
		n++
		construct := q + ":residual-clause#" + itoa(n)
		fields, _, ok := appendedStructFields(app)
		if ok && fields["Condition"] == nil && fields["Body"] == nil {
			ok = false // not a literal built here: a copy of something (the original clause)
		}
		if ok {
			k := fields["Condition"]
			r.Check(k != nil && isFromClause(k), rule, construct, p.pos(app.Pos()), "the new clause takes its kind from the original clause",
				"a residual clause is built with a kind that is not read from the original clause (constant or missing): a partially evaluated `unless` body would come back as `when`, which inverts the condition")
			return
		}
		// not a literal: the original clause itself, or the result of a helper
		elem := appendedSingle(app)
		if elem != nil {
			if c, isCall := elem.(*ssa.Call); isCall {
				passes := false
				for _, a := range c.Call.Args {
					if isFromClause(a) {
						passes = true
					}
				}
				r.Check(passes, rule, construct, p.pos(app.Pos()), "the helper that builds the clause is given the original clause's kind",
					"a residual clause is built by "+calleeName(c)+" without being given the original clause's kind: a partially evaluated `unless` body would come back as `when`")
				return
			}
			// the original element copied over
			r.Check(wholeClause(elem), rule, construct, p.pos(app.Pos()), "the original clause is kept as it is", "what is appended to the residual conditions is neither a clause built here nor the original clause")
			return
		}
		r.Undec(rule, construct, p.pos(app.Pos()), "cannot see what is appended to the residual conditions")
	})
	r.Check(n >= 3, rule, q+":sites", p.pos(fn.Pos()), itoa(n)+" places append a clause to the residual policy", "expected at least 3 appends of residual clauses in PartialPolicy, found "+itoa(n))
}

// wholeClause: v is (a copy of) an element of a []ConditionType.
func wholeClause(v ssa.Value) bool {
	seen := map[ssa.Value]bool{}
	var walk func(x ssa.Value, d int) bool
	walk = func(x ssa.Value, d int) bool {
		if d > 6 || seen[x] {
			return false
		}
		seen[x] = true
		switch y := x.(type) {
		case *ssa.UnOp:
			return walk(y.X, d+1)
		case *ssa.IndexAddr:
			sl, ok := y.X.Type().Underlying().(*types.Slice)
			return ok && typeIs(sl.Elem(), pXAst, "ConditionType")
		case *ssa.Alloc:
			if y.Referrers() != nil {
				for _, rf := range *y.Referrers() {
					if st, ok := rf.(*ssa.Store); ok && st.Addr == ssa.Value(y) && walk(st.Val, d+1) {
						return true
					}
				}
			}
		}
		return false
	}
	return walk(v, 0)
}

// R6.7 — a marker recogniser accepts everything the marker constructor makes.
// The constructors (`Variable(name)`, `Ignore()`) build an entity UID whose type is a reserved
// constant; the identifier is the caller's (any string, the empty one included). A recogniser
// (a predicate over a value / entity UID whose answer depends on a comparison with one of those
// constants) may therefore condition its positive answer only on what the constructor fixes: the
// dynamic kind of the value and the reserved type. A positive answer that also depends on a member
// the constructor takes from its caller makes some markers invisible — the partial evaluator then
// treats them as concrete entities.
func c6MarkerRecognisers(p *Prog, r *Report) {
	const rule = "R6.7-marker-recognisers"
	sp := p.SSAPkg[pEval]
	if sp == nil {
		r.Anchor(rule, "package internal/eval")
		return
	}
	// constructors: functions that call types.NewEntityUID (or build the literal) with a constant type
	type ctorInfo struct {
		fn     *ssa.Function
		idFree bool // the identifier comes from a parameter
	}
	ctors := map[string]*ctorInfo{} // reserved type constant -> constructor
	var fns []*ssa.Function
	for _, m := range sp.Members {
		if f, ok := m.(*ssa.Function); ok && f.Blocks != nil {
			fns = append(fns, f)
		}
	}
	sort.Slice(fns, func(i, j int) bool { return fns[i].Name() < fns[j].Name() })
	for _, f := range fns {
		forEachInstr(f, func(in ssa.Instruction) {
			c, ok := in.(*ssa.Call)
			if !ok {
				return
			}
			cal := c.Call.StaticCallee()
			if cal == nil || cal.Name() != "NewEntityUID" || fnPkgPath(cal) != pTypes || len(c.Call.Args) != 2 {
				return
			}
			ts, ok := constString(stripConv(c.Call.Args[0]))
			if !ok || !strings.HasPrefix(ts, "__cedar::") {
				return
			}
			_, idConst := constString(stripConv(c.Call.Args[1]))
			ctors[ts] = &ctorInfo{fn: f, idFree: !idConst}
		})
	}
	if len(ctors) < 2 {
		r.Anchor(rule, "marker constructors (functions building an entity UID of a reserved `__cedar::` type); found "+itoa(len(ctors)))
		return
	}
	// recognisers: functions with a boolean last result that compare an entity UID's type with a reserved constant
	n := 0
	recog := map[*ssa.Function][]string{}
	// direct comparers first, so that delegating predicates find them
	sort.SliceStable(fns, func(i, j int) bool { return comparesReserved(fns[i]) && !comparesReserved(fns[j]) })
	for _, f := range fns {
		res := f.Signature.Results()
		if res.Len() == 0 || !isBoolType(res.At(res.Len()-1).Type()) {
			continue
		}
		var reserved []string
		forEachInstr(f, func(in ssa.Instruction) {
			if b, ok := in.(*ssa.BinOp); ok && (b.Op == token.EQL || b.Op == token.NEQ) {
				for _, o := range []ssa.Value{b.X, b.Y} {
					if s, ok := constString(stripConv(o)); ok && ctors[s] != nil {
						reserved = append(reserved, s)
					}
				}
			}
		})
		if len(reserved) == 0 && f.Signature.Params().Len() == 1 {
			// a predicate that hands the question on to a recogniser is one too
			forEachInstr(f, func(in ssa.Instruction) {
				if c, ok := in.(*ssa.Call); ok {
					if cal := c.Call.StaticCallee(); cal != nil && recog[cal] != nil {
						reserved = append(reserved, recog[cal]...)
					}
				}
			})
		}
		if len(reserved) == 0 || f.Signature.Params().Len() != 1 {
			continue
		}
		recog[f] = reserved
		q := fnQual(f)
		n++
		bad := ""
		undec := ""
		// every block from which a non-false answer is returned
		for _, b := range f.Blocks {
			ret, ok := lastInstr(b).(*ssa.Return)
			if !ok {
				continue
			}
			ans := ret.Results[len(ret.Results)-1]
			var accept []*ssa.BasicBlock
			switch a := ans.(type) {
			case *ssa.Const:
				if v, _ := constBool(a); v {
					accept = append(accept, b)
				}
			case *ssa.Phi:
				for i, e := range a.Edges {
					if v, isC := constBool(e); isC && !v {
						continue
					}
					accept = append(accept, a.Block().Preds[i])
				}
			default:
				accept = append(accept, b)
			}
			for _, ab := range accept {
				for _, g := range guardsAt(ab) {
					g = flattenGuard(g)
					fields := entityFieldsRead(g.Cond, map[ssa.Value]bool{})
					for _, fld := range fields {
						if fld == "Type" {
							continue
						}
						for _, s := range reserved {
							if ctors[s].idFree || fld != "ID" {
								bad = "its positive answer also depends on member " + fld + " of the entity UID (condition at " + p.pos(condPos(g)) + "), which " + fnQual(ctors[s].fn) + " takes from its caller"
							}
						}
					}
					if fields == nil {
						undec = "condition at " + p.pos(condPos(g)) + " is not a test of the value's kind or of a member of the entity UID"
					}
				}
			}
		}
		switch {
		case bad != "":
			r.Viol(rule, q, p.pos(f.Pos()), "the recogniser of a reserved marker type is narrower than the constructor: "+bad+"; markers it does not recognise are treated as concrete entities by the partial evaluator")
		case undec != "":
			r.Undec(rule, q, p.pos(f.Pos()), undec)
		default:
			r.OK(rule, q, p.pos(f.Pos()), "answers from the value's kind and the reserved type ("+strings.Join(dedupStrings(reserved), ",")+") only")
		}
	}
	if n < 3 {
		r.Anchor(rule, "marker recognisers (boolean functions comparing an entity type with a reserved constant); found "+itoa(n))
	}
}

func isBoolType(t types.Type) bool {
	b, ok := t.Underlying().(*types.Basic)
	return ok && b.Kind() == types.Bool
}

func dedupStrings(in []string) []string {
	seen := map[string]bool{}
	var out []string
	for _, s := range in {
		if !seen[s] {
			seen[s] = true
			out = append(out, s)
		}
	}
	sort.Strings(out)
	return out
}

// entityFieldsRead: the members of a types.EntityUID a condition reads (through comparisons,
// conversions, calls of pure helpers on the member); a comma-ok type assertion or the answer of
// another function reads none (empty, non-nil slice). nil = the condition is of no recognised form.
func entityFieldsRead(v ssa.Value, seen map[ssa.Value]bool) []string {
	if seen[v] {
		return []string{}
	}
	seen[v] = true
	isUID := func(t types.Type) bool {
		if pt, ok := t.Underlying().(*types.Pointer); ok {
			t = pt.Elem()
		}
		return typeIs(t, pTypes, "EntityUID")
	}
	switch x := v.(type) {
	case *ssa.Const:
		return []string{}
	case *ssa.Extract:
		if _, ok := x.Tuple.(*ssa.TypeAssert); ok {
			return []string{}
		}
		if _, ok := x.Tuple.(*ssa.Call); ok {
			return []string{} // delegated answer: the callee is a recogniser of its own
		}
		return nil
	case *ssa.Call:
		// a call on a member (len(ent.ID), strings.HasPrefix(string(ent.ID), ..)) reads that member
		out := []string{}
		for _, a := range x.Call.Args {
			sub := entityFieldsRead(a, seen)
			if sub == nil {
				return nil
			}
			out = append(out, sub...)
		}
		if x.Call.IsInvoke() {
			return nil
		}
		return out
	case *ssa.Field:
		if isUID(x.X.Type()) {
			return []string{x.X.Type().Underlying().(*types.Struct).Field(x.Field).Name()}
		}
		return entityFieldsRead(x.X, seen)
	case *ssa.UnOp:
		if x.Op == token.MUL {
			if fa, ok := x.X.(*ssa.FieldAddr); ok {
				if isUID(fa.X.Type()) {
					st := fa.X.Type().Underlying().(*types.Pointer).Elem().Underlying().(*types.Struct)
					return []string{st.Field(fa.Field).Name()}
				}
			}
			return nil
		}
		return entityFieldsRead(x.X, seen)
	case *ssa.BinOp:
		a, b := entityFieldsRead(x.X, seen), entityFieldsRead(x.Y, seen)
		if a == nil || b == nil {
			return nil
		}
		return append(a, b...)
	case *ssa.Convert:
		return entityFieldsRead(x.X, seen)
	case *ssa.ChangeType:
		return entityFieldsRead(x.X, seen)
	case *ssa.Slice:
		return entityFieldsRead(x.X, seen)
	case *ssa.Phi:
		out := []string{}
		for _, e := range x.Edges {
			sub := entityFieldsRead(e, seen)
			if sub == nil {
				return nil
			}
			out = append(out, sub...)
		}
		return out
	}
	return nil
}

func comparesReserved(f *ssa.Function) bool {
	found := false
	forEachInstr(f, func(in ssa.Instruction) {
		if b, ok := in.(*ssa.BinOp); ok && (b.Op == token.EQL || b.Op == token.NEQ) {
			for _, o := range []ssa.Value{b.X, b.Y} {
				if s, ok := constString(stripConv(o)); ok && strings.HasPrefix(s, "__cedar::") {
					found = true
				}
			}
		}
	})
	return found
}

func condPos(g Guard) token.Pos {
	if g.Cond != nil && g.Cond.Pos().IsValid() {
		return g.Cond.Pos()
	}
	if in, ok := g.Cond.(ssa.Instruction); ok && in.Block() != nil {
		for _, i := range in.Block().Instrs {
			if i.Pos().IsValid() {
				return i.Pos()
			}
		}
	}
	if g.If != nil {
		return g.If.Pos()
	}
	return token.NoPos
}
