package main

// Core: loading /repo's current working tree, SSA + call graph, obligations,
// known-findings reconciliation, evidence writing. Nothing in /repo is executed.

import (
	"crypto/sha256"
	"encoding/hex"
	"encoding/json"
	"fmt"
	"go/ast"
	"go/token"
	"go/types"
	"os"
	"path/filepath"
	"regexp"
	"sort"
	"strconv"
	"strings"
	"time"

	"golang.org/x/tools/go/callgraph"
	"golang.org/x/tools/go/callgraph/cha"
	"golang.org/x/tools/go/callgraph/vta"
	"golang.org/x/tools/go/packages"
	"golang.org/x/tools/go/ssa"
	"golang.org/x/tools/go/ssa/ssautil"
)

const modPath = "github.com/cedar-policy/cedar-go"

// Short package names used throughout the rules.
const (
	pRoot      = modPath
	pAst       = modPath + "/ast"
	pTypes     = modPath + "/types"
	pEval      = modPath + "/internal/eval"
	pExt       = modPath + "/internal/extensions"
	pJSON      = modPath + "/internal/json"
	pMapset    = modPath + "/internal/mapset"
	pParser    = modPath + "/internal/parser"
	pRust      = modPath + "/internal/rust"
	pConsts    = modPath + "/internal/consts"
	pXAst      = modPath + "/x/exp/ast"
	pBatch     = modPath + "/x/exp/batch"
	pXEval     = modPath + "/x/exp/eval"
	pXTypes    = modPath + "/x/exp/types"
	pSchema    = modPath + "/x/exp/schema"
	pSchemaAst = modPath + "/x/exp/schema/ast"
	pSchemaJS  = modPath + "/x/exp/schema/internal/json"
	pSchemaPar = modPath + "/x/exp/schema/internal/parser"
	pResolved  = modPath + "/x/exp/schema/resolved"
	pValidate  = modPath + "/x/exp/schema/validate"
)

// Packages that exist only to support the repository's own tests; they are loaded
// (they are part of ./...) but are outside every property's scope.
var testSupportPkgs = map[string]bool{
	modPath + "/internal/testutil":     true,
	modPath + "/internal/testvalidate": true,
}

type Prog struct {
	RepoDir string
	Arch    string
	Fset    *token.FileSet
	Pkgs    map[string]*packages.Package // repo packages by import path
	All     []*packages.Package
	SSA     *ssa.Program
	SSAPkg  map[string]*ssa.Package
	// every function with a body whose package (or generic origin's package) is in the repo,
	// anonymous functions included
	Funcs   []*ssa.Function
	funcSet map[*ssa.Function]bool
	cg      *callgraph.Graph
	chaG    *callgraph.Graph
	LoadS   float64
	mr      *modref
	ord     *orderAnalysis
}

func sha(path string) string {
	b, err := os.ReadFile(path)
	if err != nil {
		return "missing"
	}
	h := sha256.Sum256(b)
	return hex.EncodeToString(h[:])
}

func loadProg(repo, arch string) (*Prog, error) {
	t0 := time.Now()
	h1 := sha(filepath.Join(repo, "go.mod")) + sha(filepath.Join(repo, "go.sum"))
	env := []string{}
	for _, e := range os.Environ() {
		if strings.HasPrefix(e, "GOWORK=") || strings.HasPrefix(e, "GOFLAGS=") || strings.HasPrefix(e, "GOARCH=") ||
			strings.HasPrefix(e, "GOOS=") || strings.HasPrefix(e, "GOPROXY=") || strings.HasPrefix(e, "GOSUMDB=") ||
			strings.HasPrefix(e, "GOTOOLCHAIN=") {
			continue
		}
		env = append(env, e)
	}
	env = append(env, "GOWORK=off", "GOFLAGS=-mod=mod", "GOPROXY=off", "GOSUMDB=off", "GOTOOLCHAIN=local",
		"GOOS=linux", "GOARCH="+arch, "CGO_ENABLED=0")
	fset := token.NewFileSet()
	cfg := &packages.Config{
		Mode:  packages.LoadAllSyntax,
		Dir:   repo,
		Env:   env,
		Fset:  fset,
		Tests: false,
	}
	pkgs, err := packages.Load(cfg, "./...")
	if err != nil {
		return nil, fmt.Errorf("packages.Load: %w", err)
	}
	h2 := sha(filepath.Join(repo, "go.mod")) + sha(filepath.Join(repo, "go.sum"))
	if h1 != h2 {
		return nil, fmt.Errorf("loading rewrote %s/go.mod or go.sum (checker defect; module files must stay as found)", repo)
	}
	p := &Prog{RepoDir: repo, Arch: arch, Fset: fset, Pkgs: map[string]*packages.Package{}, SSAPkg: map[string]*ssa.Package{}, funcSet: map[*ssa.Function]bool{}}
	var errs []string
	packages.Visit(pkgs, nil, func(pk *packages.Package) {
		for _, e := range pk.Errors {
			errs = append(errs, e.Error())
		}
	})
	if len(errs) > 0 {
		sort.Strings(errs)
		if len(errs) > 10 {
			errs = errs[:10]
		}
		return nil, fmt.Errorf("type-check/load errors (the tree must build): %s", strings.Join(errs, "; "))
	}
	for _, pk := range pkgs {
		if pk.PkgPath == modPath || strings.HasPrefix(pk.PkgPath, modPath+"/") {
			p.Pkgs[pk.PkgPath] = pk
			p.All = append(p.All, pk)
		}
	}
	if len(p.All) < 20 {
		return nil, fmt.Errorf("only %d repository packages loaded from %s; expected >= 20", len(p.All), repo)
	}
	sort.Slice(p.All, func(i, j int) bool { return p.All[i].PkgPath < p.All[j].PkgPath })
	prog, spkgs := ssautil.AllPackages(pkgs, ssa.InstantiateGenerics)
	prog.Build()
	p.SSA = prog
	for i, sp := range spkgs {
		if sp != nil {
			if _, ok := p.Pkgs[pkgs[i].PkgPath]; ok {
				p.SSAPkg[pkgs[i].PkgPath] = sp
			}
		}
	}
	for fn := range ssautil.AllFunctions(prog) {
		if fn.Blocks == nil {
			continue
		}
		if p.inRepo(fn) {
			p.Funcs = append(p.Funcs, fn)
			p.funcSet[fn] = true
		}
	}
	sort.Slice(p.Funcs, func(i, j int) bool {
		a, b := p.Funcs[i], p.Funcs[j]
		if a.String() != b.String() {
			return a.String() < b.String()
		}
		return a.Pos() < b.Pos()
	})
	p.LoadS = time.Since(t0).Seconds()
	return p, nil
}

// fnPkgPath returns the import path of the package a function belongs to (following
// closures to their parent and generic instances to their origin).
func fnPkgPath(fn *ssa.Function) string {
	for fn.Parent() != nil {
		fn = fn.Parent()
	}
	if o := fn.Origin(); o != nil {
		fn = o
	}
	if fn.Pkg != nil {
		return fn.Pkg.Pkg.Path()
	}
	if fn.Object() != nil && fn.Object().Pkg() != nil {
		return fn.Object().Pkg().Path()
	}
	// wrappers / bound methods: use receiver
	if fn.Signature != nil && fn.Signature.Recv() != nil {
		t := fn.Signature.Recv().Type()
		if pt, ok := t.(*types.Pointer); ok {
			t = pt.Elem()
		}
		if n, ok := t.(*types.Named); ok && n.Obj().Pkg() != nil {
			return n.Obj().Pkg().Path()
		}
	}
	return ""
}

func (p *Prog) inRepo(fn *ssa.Function) bool {
	pp := fnPkgPath(fn)
	return pp == modPath || strings.HasPrefix(pp, modPath+"/")
}

func (p *Prog) CG() *callgraph.Graph {
	if p.cg == nil {
		p.chaG = cha.CallGraph(p.SSA)
		p.cg = vta.CallGraph(ssautil.AllFunctions(p.SSA), p.chaG)
	}
	return p.cg
}

func (p *Prog) pos(pos token.Pos) string {
	if !pos.IsValid() {
		return "-"
	}
	ps := p.Fset.Position(pos)
	rel, err := filepath.Rel(p.RepoDir, ps.Filename)
	if err != nil || strings.HasPrefix(rel, "..") {
		rel = ps.Filename
	}
	return rel + ":" + strconv.Itoa(ps.Line)
}

// ---------------------------------------------------------------------------------------------
// lookup helpers (anchors)

func (p *Prog) pkg(path string) *packages.Package { return p.Pkgs[path] }

// fn finds a package-level function or a method "T.m" / "(*T).m" in a repo package.
func (p *Prog) fn(pkgPath, name string) *ssa.Function {
	sp := p.SSAPkg[pkgPath]
	if sp == nil {
		return nil
	}
	if i := strings.Index(name, "."); i >= 0 {
		tn, mn := name[:i], name[i+1:]
		tn = strings.TrimPrefix(strings.TrimSuffix(strings.TrimPrefix(tn, "("), ")"), "*")
		t := sp.Type(tn)
		if t == nil {
			return nil
		}
		nt := t.Type()
		for _, typ := range []types.Type{nt, types.NewPointer(nt)} {
			ms := p.SSA.MethodSets.MethodSet(typ)
			for i := 0; i < ms.Len(); i++ {
				if ms.At(i).Obj().Name() == mn {
					f := p.SSA.MethodValue(ms.At(i))
					if f != nil && f.Synthetic == "" {
						return f
					}
					// wrapper for value method via pointer: resolve to declared
					if f != nil {
						if obj, ok := ms.At(i).Obj().(*types.Func); ok {
							if df := p.SSA.FuncValue(obj); df != nil {
								return df
							}
						}
					}
				}
			}
		}
		return nil
	}
	return sp.Func(name)
}

func (p *Prog) namedType(pkgPath, name string) *types.Named {
	pk := p.Pkgs[pkgPath]
	if pk == nil {
		return nil
	}
	o := pk.Types.Scope().Lookup(name)
	if o == nil {
		return nil
	}
	tn, ok := o.(*types.TypeName)
	if !ok {
		return nil
	}
	if a, ok := tn.Type().(*types.Alias); ok {
		n, _ := types.Unalias(a).(*types.Named)
		return n
	}
	n, _ := tn.Type().(*types.Named)
	return n
}

// funcDecl returns the syntax of a declared function.
func funcDecl(fn *ssa.Function) *ast.FuncDecl {
	if fn == nil {
		return nil
	}
	d, _ := fn.Syntax().(*ast.FuncDecl)
	return d
}

// ---------------------------------------------------------------------------------------------
// obligations

type Verdict int

const (
	Discharged Verdict = iota
	Violation
	Undecided
)

func (v Verdict) String() string {
	return [...]string{"discharged", "violation", "undecided"}[v]
}

type Oblig struct {
	Rule      string  `json:"rule"`
	Construct string  `json:"construct"`
	Pos       string  `json:"pos"`
	Verdict   Verdict `json:"-"`
	V         string  `json:"verdict"`
	Msg       string  `json:"msg"`
	Known     bool    `json:"known,omitempty"`
}

type Report struct {
	Property string
	Tier     string
	Obligs   []Oblig
	Counts   map[string]int // instance counts per rule
	Notes    []string
	seen     map[string]bool
}

func newReport(prop, tier string) *Report {
	return &Report{Property: prop, Tier: tier, Counts: map[string]int{}, seen: map[string]bool{}}
}

func (r *Report) add(v Verdict, rule, construct, pos, msg string) {
	key := rule + "|" + construct + "|" + v.String() + "|" + msg
	if r.seen[key] {
		return
	}
	r.seen[key] = true
	r.Obligs = append(r.Obligs, Oblig{Rule: rule, Construct: construct, Pos: pos, Verdict: v, V: v.String(), Msg: msg})
	r.Counts[rule]++
}

func (r *Report) OK(rule, construct, pos, msg string)   { r.add(Discharged, rule, construct, pos, msg) }
func (r *Report) Viol(rule, construct, pos, msg string) { r.add(Violation, rule, construct, pos, msg) }
func (r *Report) Undec(rule, construct, pos, msg string) {
	r.add(Undecided, rule, construct, pos, "undecided: "+msg)
}

// Check records a discharged obligation when ok, else a violation.
func (r *Report) Check(ok bool, rule, construct, pos, okMsg, badMsg string) bool {
	if ok {
		r.OK(rule, construct, pos, okMsg)
	} else {
		r.Viol(rule, construct, pos, badMsg)
	}
	return ok
}

// Floor fails when a rule matched fewer instances than the floor (a rule that silently matches
// nothing would pass vacuously forever).
func (r *Report) Floor(rule string, min int) {
	n := r.Counts[rule]
	if n < min {
		r.add(Undecided, rule, "instance-floor", "-", fmt.Sprintf("undecided: rule matched %d instances, floor is %d (anchors vanished or were restructured beyond recognition)", n, min))
	}
}

// Anchor reports an unresolved anchor.
func (r *Report) Anchor(rule, what string) {
	r.add(Undecided, rule, what, "-", "undecided: unresolved anchor "+what)
}

type knownFinding struct {
	Property  string `json:"property"`
	Rule      string `json:"rule"`
	Construct string `json:"construct"`
	What      string `json:"what"`
	Status    string `json:"status"`
	Commit    string `json:"commit,omitempty"`
}

type knownFile struct {
	Findings []knownFinding `json:"findings"`
	Fixed    []string       `json:"fixed_log"`
}

func loadKnown(verifDir string) (*knownFile, error) {
	b, err := os.ReadFile(filepath.Join(verifDir, "known_findings.json"))
	if err != nil {
		if os.IsNotExist(err) {
			return &knownFile{}, nil
		}
		return nil, err
	}
	var k knownFile
	if err := json.Unmarshal(b, &k); err != nil {
		return nil, err
	}
	return &k, nil
}

// finish reconciles with known findings, prints the verdict lines, writes evidence and the replay
// file, and returns the exit code.
func (r *Report) finish(verifDir string, p *Prog, configs []string, wall float64, explanation string, assumptions []string) int {
	kf, err := loadKnown(verifDir)
	if err != nil {
		fmt.Printf("ERROR reading known_findings.json: %v\n", err)
		return 2
	}
	sort.SliceStable(r.Obligs, func(i, j int) bool {
		a, b := r.Obligs[i], r.Obligs[j]
		if a.Rule != b.Rule {
			return a.Rule < b.Rule
		}
		if a.Construct != b.Construct {
			return a.Construct < b.Construct
		}
		return a.Msg < b.Msg
	})
	if show := os.Getenv("CEDARCHECK_SHOW"); show != "" {
		for _, o := range r.Obligs {
			if strings.Contains(o.Construct, show) || strings.Contains(o.Rule, show) {
				fmt.Printf("SHOW %s %s %s %s: %s\n", o.V, o.Pos, o.Rule, o.Construct, o.Msg)
			}
		}
	}
	nViol, nUndec, nKnown, nOK := 0, 0, 0, 0
	var bad []Oblig
	knownPrinted := map[string]bool{}
	for i := range r.Obligs {
		o := &r.Obligs[i]
		switch o.Verdict {
		case Discharged:
			nOK++
		case Violation, Undecided:
			matched := false
			if o.Verdict == Violation {
				for _, k := range kf.Findings {
					if k.Status == "known" && k.Property == r.Property && k.Rule == o.Rule && stableConstruct(k.Construct) == stableConstruct(o.Construct) {
						matched = true
						o.Known = true
						if !knownPrinted[k.Rule+k.Construct] {
							knownPrinted[k.Rule+k.Construct] = true
							fmt.Printf("KNOWN-FINDING: property=%s %s [%s @ %s] %s\n", r.Property, k.What, o.Rule, o.Construct, o.Pos)
						}
					}
				}
			}
			if matched {
				nKnown++
			} else {
				if o.Verdict == Violation {
					nViol++
				} else {
					nUndec++
				}
				bad = append(bad, *o)
			}
		}
	}
	os.MkdirAll(filepath.Join(verifDir, "evidence", "replay"), 0o755)
	replay := filepath.Join(verifDir, "evidence", "replay", r.Property+".txt")
	if len(bad) > 0 {
		var sb strings.Builder
		for _, o := range bad {
			fmt.Fprintf(&sb, "%s: %s: %s: %s\n", o.Pos, o.Rule, o.Construct, o.Msg)
		}
		os.WriteFile(replay, []byte(sb.String()), 0o644)
		for _, o := range bad {
			fmt.Printf("  %s %s: %s: %s: %s\n", strings.ToUpper(o.Verdict.String()), o.Pos, o.Rule, o.Construct, o.Msg)
		}
		fmt.Printf("VIOLATION property=%s replay=%s\n", r.Property, replay)
	} else {
		os.Remove(replay)
	}
	// evidence
	perRule := map[string]map[string]int{}
	for _, o := range r.Obligs {
		m := perRule[o.Rule]
		if m == nil {
			m = map[string]int{}
			perRule[o.Rule] = m
		}
		m["instances"]++
		if o.Known {
			m["known"]++
		} else {
			m[o.Verdict.String()]++
		}
	}
	var samples []Oblig
	// sample: violations first, then a spread of discharged ones across rules
	samples = append(samples, bad...)
	lastRule := ""
	perRuleN := 0
	for _, o := range r.Obligs {
		if len(samples) >= 40 {
			break
		}
		if o.Verdict != Discharged && !o.Known {
			continue
		}
		if o.Rule != lastRule {
			lastRule, perRuleN = o.Rule, 0
		}
		if perRuleN < 2 {
			samples = append(samples, o)
			perRuleN++
		}
	}
	nfuncs, npk := 0, 0
	if p != nil {
		nfuncs, npk = len(p.Funcs), len(p.All)
	}
	ev := map[string]any{
		"property_id": r.Property,
		"tier":        r.Tier,
		"seed":        0,
		"level":       "other",
		"coverage": map[string]any{
			"explanation":        explanation,
			"obligations":        len(r.Obligs),
			"discharged":         nOK,
			"known_findings":     nKnown,
			"violations":         nViol,
			"undecided":          nUndec,
			"per_rule":           perRule,
			"packages":           npk,
			"functions_analysed": nfuncs,
			"configurations":     configs,
			"samples":            samples,
			"notes":              r.Notes,
			"exhaustive":         false,
		},
		"assumptions": assumptions,
		"wall_s":      wall,
		"violations":  nViol + nUndec,
	}
	b, _ := json.MarshalIndent(ev, "", " ")
	os.WriteFile(filepath.Join(verifDir, "evidence", r.Property+".json"), b, 0o644)
	fmt.Printf("property=%s tier=%s obligations=%d discharged=%d known=%d violations=%d undecided=%d wall=%.1fs\n",
		r.Property, r.Tier, len(r.Obligs), nOK, nKnown, nViol, nUndec, wall)
	rules := make([]string, 0, len(perRule))
	for k := range perRule {
		rules = append(rules, k)
	}
	sort.Strings(rules)
	for _, k := range rules {
		m := perRule[k]
		fmt.Printf("  rule %-28s instances=%d discharged=%d known=%d violation=%d undecided=%d\n", k, m["instances"], m["discharged"], m["known"], m["violation"], m["undecided"])
	}
	if len(bad) > 0 {
		return 1
	}
	return 0
}

var closureOrdinal = regexp.MustCompile(`\$\d+`)

// stableConstruct drops closure ordinals ("cloneSub$3" -> "cloneSub$"): the number only says how many function literals
// precede this one in the enclosing function, so an unrelated edit would otherwise turn a listed finding into a "new" one.
func stableConstruct(c string) string { return closureOrdinal.ReplaceAllString(c, "$$") }
