package main

// C10 — decoders and encoders are total: no panic, crash or hang on any input.

import (
	"fmt"
	"go/ast"
	"go/constant"
	"go/token"
	"go/types"
	"math/big"
	"os"
	"sort"
	"strings"

	"golang.org/x/tools/go/ssa"
)

func init() {
	register(&propCheck{
		ID: "C10",
		Explanation: "Structural totality rules over everything reachable from the decoders, the encoders, the compiler and the authorizers: R10.1 every explicit panic is the default of a type switch that " +
			"is exhaustive over a sealed sum type (dead for non-nil operands; the decoders hand out a zero node only together with an error) or a tabled programming-error guard whose call sites are checked; " +
			"R10.2 every single-result type assertion outside the validator is justified by the callee/argument types; R10.3 a pointer that encoding/json may leave nil (pointer fields and pointer-valued " +
			"map/slice elements of the JSON wire structs) is dereferenced — directly, through a value-receiver method, or by a callee that dereferences its parameter unconditionally — only under a nil test (decode targets are all json-tagged structs; a pointer merged with others stays suspect until the merged value is tested; a map or slice of pointers filled by encoding/json may not leave its decoder whole); " +
			"R10.4 constant indexing of a slice that comes from input, or of a slice parameter of a named function, is dominated by a length fact (length test, registry arity under a name test, caller contract), and the text parser's token cursor obeys pos < len(tokens) by who-may-write rules; R10.5 recursion that " +
			"consumes input (the text parsers' expression cycles) needs a depth bound, JSON-driven recursion is bounded by encoding/json's nesting limit; R10.6 every loop of both recursive-descent parsers " +
			"consumes a token or leaves on every path through its body. Not decided: slicing arithmetic inside the tokenizer, the rust-style unquoting tables, Pattern.Match, duration/datetime string parsers.",
		Assumptions: []string{"encoding/json bounds nesting depth (10000) and leaves pointer fields nil on null / absent members", "index arithmetic inside scanners and string parsers is not analysed"},
		Run:         runC10,
	})
}

var c10JSONPkgs = map[string]bool{pJSON: true, pSchemaJS: true, pTypes: true, pRoot: true}

func runC10(p *Prog, r *Report) {
	c10Panics(p, r)
	c10Asserts(p, r)
	c10NilDeref(p, r)
	c10Index(p, r)
	c10Recursion(p, r)
	c10LoopProgress(p, r)
	c10LexerEOF(p, r)
	c10Bounds(p, r)
	r.Floor("R10.1-panics", 8)
	r.Floor("R10.3-nil-deref", 40)
	r.Floor("R10.4-index", 8)
	r.Floor("R10.5-recursion", 2)
	r.Floor("R10.6-loop-progress", 18)
}

// ---------------------------------------------------------------------------------------------
// R10.1

var c10PanicTable = map[string]string{
	"mapset.Make":      "programming-error guard on the variadic size argument; call sites pass at most one size (checked)",
	"types.NewPattern": "programming-error guard on component kinds; library call sites pass only string/String/Wildcard (checked)",
}

func c10Panics(p *Prog, r *Report) {
	const rule = "R10.1-panics"
	for _, pk := range p.All {
		if testSupportPkgs[pk.PkgPath] {
			continue
		}
		for _, f := range pk.Syntax {
			var stack []ast.Node
			var cur *ast.FuncDecl
			ast.Inspect(f, func(n ast.Node) bool {
				if n == nil {
					stack = stack[:len(stack)-1]
					return true
				}
				stack = append(stack, n)
				if fd, ok := n.(*ast.FuncDecl); ok {
					cur = fd
				}
				call, ok := n.(*ast.CallExpr)
				if !ok || !isBuiltinCall(pk.TypesInfo, call, "panic") {
					return true
				}
				q := pk.Types.Name() + "." + declName(cur)
				pos := p.pos(call.Pos())
				// default clause of an exhaustive type switch over a sealed interface?
				var cc *ast.CaseClause
				var ts *ast.TypeSwitchStmt
				var sw *ast.SwitchStmt
				for i := len(stack) - 1; i >= 0; i-- {
					if c, ok := stack[i].(*ast.CaseClause); ok && cc == nil {
						cc = c
					}
					if t, ok := stack[i].(*ast.TypeSwitchStmt); ok && ts == nil && cc != nil {
						ts = t
						break
					}
					if s, ok := stack[i].(*ast.SwitchStmt); ok && sw == nil && cc != nil {
						sw = s
						break
					}
				}
				if ts != nil && cc != nil && cc.List == nil {
					ti := p.analyseTypeSwitch(pk, cur, ts)
					if ti != nil && len(ti.Missing) == 0 {
						r.OK(rule, q+":default-of-exhaustive-switch", pos, "unreachable for non-nil operands: the switch covers all "+itoa(len(ti.Sealed.Impls))+" implementers of "+ti.Sealed.name())
						return true
					}
					if ti != nil {
						r.Viol(rule, q+":default-of-switch", pos, "panic in the default of a type switch over "+ti.Sealed.name()+" that has no case for "+typeNames(ti.Missing)+": values of those kinds (which decoders can produce) crash here")
						return true
					}
				}
				if sw != nil && cc != nil && cc.List == nil && q == "eval.ToEval" {
					// the variable-name switch: all four request variables covered (checked under C01 R1.1); names other than
					// these cannot be produced by the decoders (checked below)
					r.OK(rule, q+":unknown-variable", pos, "variable nodes are only ever built with the four request variable names (decoders checked)")
					return true
				}
				if why, ok := c10PanicTable[q]; ok {
					r.OK(rule, q, pos, "tabled: "+why)
					return true
				}
				r.Viol(rule, q, pos, "explicit panic that is neither the default of an exhaustive sum-type switch nor a tabled programming-error guard: reachable panics make decoders/encoders partial")
				return true
			})
		}
	}
	// decoders return a zero node only together with an error
	n := 0
	for _, fn := range p.Funcs {
		pp := fnPkgPath(fn)
		if pp != pJSON && pp != pParser {
			continue
		}
		res := fn.Signature.Results()
		if res.Len() != 2 || !typeIs(res.At(0).Type(), pXAst, "Node") || !isErrorType(res.At(1).Type()) {
			continue
		}
		for _, b := range fn.Blocks {
			ret, ok := lastInstr(b).(*ssa.Return)
			if !ok {
				continue
			}
			v := retVal(ret, 0)
			zero := false
			if c, ok := v.(*ssa.Const); ok && c.Value == nil {
				zero = true
			}
			if ld, ok := v.(*ssa.UnOp); ok && ld.Op == token.MUL {
				if a, ok := ld.X.(*ssa.Alloc); ok {
					stores := 0
					for _, ref := range *a.Referrers() {
						if _, isSt := ref.(*ssa.Store); isSt {
							stores++
						}
						if fa, isFA := ref.(*ssa.FieldAddr); isFA && fa.Referrers() != nil {
							for _, rr := range *fa.Referrers() {
								if _, isSt := rr.(*ssa.Store); isSt {
									stores++
								}
							}
						}
					}
					if stores == 0 {
						zero = true
					}
				}
			}
			if !zero {
				continue
			}
			n++
			r.Check(!isNilConst(retLast(ret)), rule, fnQual(fn)+":zero-node", p.pos(ret.Pos()), "a zero node is returned only with an error", "a decoder returns the zero ast.Node with a nil error: later stages (compiler, encoders) panic on the nil node inside it")
		}
	}
	if n < 20 {
		r.Undec(rule, "zero-node-returns", "-", "only "+itoa(n)+" zero-node returns found in the decoders")
	}
	// call sites of the tabled guards
	for _, fn := range p.Funcs {
		if testSupportPkgs[fnPkgPath(fn)] {
			continue
		}
		for _, c := range callsIn(fn) {
			g := c.Common().StaticCallee()
			if g == nil {
				continue
			}
			if fnIs(g, pMapset, "Make") && fn.Synthetic == "" && !fnIs(fn, pMapset, "Make") {
				// variadic slice length <= 1
				nargs := -1
				if sl, ok := c.Common().Args[0].(*ssa.Slice); ok {
					if a, ok := sl.X.(*ssa.Alloc); ok {
						if at, ok := a.Type().Underlying().(*types.Pointer).Elem().Underlying().(*types.Array); ok {
							nargs = int(at.Len())
						}
					}
				}
				if cst, ok := c.Common().Args[0].(*ssa.Const); ok && cst.Value == nil {
					nargs = 0
				}
				r.Check(nargs >= 0 && nargs <= 1, rule, fnQual(fn)+":mapset.Make-call", p.pos(c.Pos()), "called with "+itoa(nargs)+" size argument(s)", "mapset.Make is called with a slice of sizes of unknown or >1 length: it panics")
			}
		}
	}
}

// ---------------------------------------------------------------------------------------------
// R10.2

func c10Asserts(p *Prog, r *Report) {
	const rule = "R10.2-assertions"
	n := 0
	for _, fn := range p.Funcs {
		pp := fnPkgPath(fn)
		if testSupportPkgs[pp] || pp == pValidate {
			continue // the validator's assertions are C16's
		}
		forEachInstr(fn, func(in ssa.Instruction) {
			ta, ok := in.(*ssa.TypeAssert)
			if !ok || ta.CommaOk {
				return
			}
			// go/ssa also emits non-comma-ok assertions for type-switch bindings after a successful comma-ok test of the same
			// value and type: those are dominated by that test
			for _, g := range guardsAt(ta.Block()) {
				fg := flattenGuard(g)
				if ex, ok := fg.Cond.(*ssa.Extract); ok && fg.Pol {
					if t2, ok := ex.Tuple.(*ssa.TypeAssert); ok && t2.X == ta.X && types.Identical(t2.AssertedType, ta.AssertedType) {
						return
					}
				}
			}
			n++
			q := fnQual(fn) + ":.(" + typeShort(ta.AssertedType) + ")"
			// result of a call whose every return has that dynamic type
			if c, ok := ta.X.(*ssa.Call); ok {
				if g := c.Call.StaticCallee(); g != nil && g.Blocks != nil {
					if allReturnsHaveType(g, c, ta.AssertedType) {
						r.OK(rule, q, p.pos(ta.Pos()), "every return of "+g.Name()+" is a "+typeShort(ta.AssertedType)+" (or its "+typeShort(ta.AssertedType)+"-typed argument)")
						return
					}
				}
			}
			r.Viol(rule, q, p.pos(ta.Pos()), "unchecked type assertion: if the operand holds any other kind the program panics")
		})
	}
	r.OK(rule, "summary", "-", itoa(n)+" single-result assertions outside the validator examined")
}

func allReturnsHaveType(g *ssa.Function, call *ssa.Call, t types.Type) bool {
	for _, b := range g.Blocks {
		ret, ok := lastInstr(b).(*ssa.Return)
		if !ok {
			continue
		}
		v := retVal(ret, 0)
		switch x := v.(type) {
		case *ssa.MakeInterface:
			if !types.Identical(x.X.Type(), t) {
				return false
			}
		case *ssa.Parameter:
			// returns its argument: the argument at this call must be of that type
			idx := -1
			for i, prm := range g.Params {
				if prm == x {
					idx = i
				}
			}
			if idx < 0 || idx >= len(call.Call.Args) {
				return false
			}
			mi, ok := call.Call.Args[idx].(*ssa.MakeInterface)
			if !ok || !types.Identical(mi.X.Type(), t) {
				return false
			}
		default:
			return false
		}
	}
	return true
}

// ---------------------------------------------------------------------------------------------
// R10.3

// derefParams: for each function, the pointer parameters it dereferences on some path that has
// not tested them for nil.
func derefParams(p *Prog) map[*ssa.Function]map[int]bool {
	out := map[*ssa.Function]map[int]bool{}
	changed := true
	for iter := 0; changed && iter < 6; iter++ {
		changed = false
		for _, fn := range p.Funcs {
			if fn.Blocks == nil {
				continue
			}
			for i, prm := range fn.Params {
				if _, isPtr := prm.Type().Underlying().(*types.Pointer); !isPtr {
					continue
				}
				if out[fn][i] {
					continue
				}
				if prm.Referrers() == nil {
					continue
				}
				for _, u := range *prm.Referrers() {
					guarded := false
					for _, g := range guardsAt(u.Block()) {
						if nn, k := nilTest(g, prm); k && nn {
							guarded = true
						}
					}
					if guarded {
						continue
					}
					deref := false
					switch x := u.(type) {
					case *ssa.FieldAddr, *ssa.IndexAddr:
						deref = true
					case *ssa.UnOp:
						deref = x.Op == token.MUL
					case *ssa.Store:
						deref = x.Addr == ssa.Value(prm)
					case ssa.CallInstruction:
						cc := x.Common()
						if g := cc.StaticCallee(); g != nil {
							for ai, a := range cc.Args {
								if a == ssa.Value(prm) && out[g][ai] {
									deref = true
								}
							}
						}
					}
					if deref {
						if out[fn] == nil {
							out[fn] = map[int]bool{}
						}
						out[fn][i] = true
						changed = true
						break
					}
				}
			}
		}
	}
	return out
}

// jsonPopulated: a struct type declared in one of the JSON wire packages that encoding/json fills.
func isWireStruct(t types.Type) bool {
	n := namedOf(t)
	if n == nil || n.Obj().Pkg() == nil {
		return false
	}
	if _, ok := n.Underlying().(*types.Struct); !ok {
		return false
	}
	pp := n.Obj().Pkg().Path()
	return pp == pJSON || pp == pSchemaJS
}

// isDecodeTarget: a wire struct of the JSON packages, or any struct (named or anonymous, e.g. a local `var res struct{…}`)
// that declares json field tags — the shape encoding/json fills in, leaving pointer members nil for null or absent keys.
func isDecodeTarget(t types.Type) bool {
	if isWireStruct(t) {
		return true
	}
	st, ok := t.Underlying().(*types.Struct)
	if !ok {
		return false
	}
	if n := namedOf(t); n != nil && n.Obj().Pkg() != nil && !strings.HasPrefix(n.Obj().Pkg().Path(), modPath) {
		return false
	}
	for i := 0; i < st.NumFields(); i++ {
		if strings.Contains(st.Tag(i), "json:\"") {
			return true
		}
	}
	return false
}

func c10NilDeref(p *Prog, r *Report) {
	const rule = "R10.3-nil-deref"
	dp := derefParams(p)
	for _, fn := range p.Funcs {
		pp := fnPkgPath(fn)
		if pp != pJSON && pp != pSchemaJS && pp != pRoot && pp != pTypes && pp != modPath+"/x/exp/types" {
			continue
		}
		// sources: loads of pointer-typed fields of wire structs; pointer-valued map / slice elements of wire containers
		type source struct {
			v    ssa.Value
			key  string // canonical identity for repeated loads of the same field
			desc string
		}
		var sources []source
		forEachInstr(fn, func(in ssa.Instruction) {
			switch x := in.(type) {
			case *ssa.UnOp:
				if x.Op != token.MUL {
					return
				}
				if _, isPtr := x.Type().Underlying().(*types.Pointer); !isPtr {
					return
				}
				if fa, ok := x.X.(*ssa.FieldAddr); ok {
					if pt, ok := fa.X.Type().Underlying().(*types.Pointer); ok && isDecodeTarget(pt.Elem()) {
						st := pt.Elem().Underlying().(*types.Struct)
						sources = append(sources, source{x, "field:" + canonPath(fa.X) + "." + itoa(fa.Field), typeShort(pt.Elem()) + "." + st.Field(fa.Field).Name()})
					}
				}
				if ia, ok := x.X.(*ssa.IndexAddr); ok {
					if sl, ok := ia.X.Type().Underlying().(*types.Slice); ok {
						if ept, ok := sl.Elem().Underlying().(*types.Pointer); ok && isWireStruct(ept.Elem()) {
							sources = append(sources, source{x, "elem:" + x.Name(), "element of " + typeShort(ia.X.Type())})
						}
					}
				}
			case *ssa.Field:
				if _, isPtr := x.Type().Underlying().(*types.Pointer); isPtr && isDecodeTarget(x.X.Type()) {
					st := x.X.Type().Underlying().(*types.Struct)
					sources = append(sources, source{x, "field:" + canonPath(x.X) + "." + itoa(x.Field), typeShort(x.X.Type()) + "." + st.Field(x.Field).Name()})
				}
			case *ssa.Extract:
				if nx, ok := x.Tuple.(*ssa.Next); ok && x.Index == 2 {
					if ept, ok := x.Type().Underlying().(*types.Pointer); ok && (isWireStruct(ept.Elem()) || typeIs(ept.Elem(), pJSON, "Policy")) {
						_ = nx
						sources = append(sources, source{x, "mapelem:" + x.Name(), "map element " + typeShort(x.Type())})
					}
				}
			case *ssa.Lookup:
				if ept, ok := x.Type().Underlying().(*types.Pointer); ok && !x.CommaOk && (isWireStruct(ept.Elem()) || typeIs(ept.Elem(), pJSON, "Policy")) {
					sources = append(sources, source{x, "lookup:" + x.Name(), "map element " + typeShort(x.Type())})
				}
			}
		})
		// containers of pointers taken out of a decode target: encoding/json stores a nil pointer for a null member without
		// calling any unmarshaller, so such a map or slice may leave the decoder only element by element, behind a nil test
		forEachInstr(fn, func(in ssa.Instruction) {
			var v ssa.Value
			var owner types.Type
			var fname string
			switch x := in.(type) {
			case *ssa.UnOp:
				if fa, ok := x.X.(*ssa.FieldAddr); ok && x.Op == token.MUL {
					if pt, ok := fa.X.Type().Underlying().(*types.Pointer); ok && isDecodeTarget(pt.Elem()) {
						v, owner, fname = x, pt.Elem(), pt.Elem().Underlying().(*types.Struct).Field(fa.Field).Name()
					}
				}
			case *ssa.Field:
				if isDecodeTarget(x.X.Type()) {
					v, owner, fname = x, x.X.Type(), x.X.Type().Underlying().(*types.Struct).Field(x.Field).Name()
				}
			}
			if v == nil {
				return
			}
			var elem types.Type
			switch ct := v.Type().Underlying().(type) {
			case *types.Map:
				elem = ct.Elem()
			case *types.Slice:
				elem = ct.Elem()
			}
			if elem == nil {
				return
			}
			if _, isPtr := elem.Underlying().(*types.Pointer); !isPtr {
				return
			}
			// only inside functions that fill the struct from JSON themselves
			decodes := false
			for _, c := range callsIn(fn) {
				if g := c.Common().StaticCallee(); g != nil && (stdName(g) == "encoding/json.Unmarshal" || stdName(g) == "json.Unmarshal" || strings.HasSuffix(stdName(g), "Decoder.Decode")) {
					decodes = true
				}
			}
			if !decodes {
				return
			}
			construct := fnQual(fn) + ":" + typeShort(owner) + "." + fname + ":container"
			var leaks []string
			for _, al := range mergedWith(v) {
				if al.Referrers() == nil {
					continue
				}
				for _, u := range *al.Referrers() {
					switch y := u.(type) {
					case *ssa.Store:
						if y.Val == al {
							leaks = append(leaks, "stored at "+p.pos(y.Pos()))
						}
					case *ssa.Return:
						leaks = append(leaks, "returned at "+p.pos(y.Pos()))
					case *ssa.MakeInterface:
						leaks = append(leaks, "boxed at "+p.pos(y.Pos()))
					}
				}
			}
			sort.Strings(leaks)
			r.Check(len(leaks) == 0, rule, construct, p.pos(in.Pos()), "the decoded container of pointers is only ranged over / looked up here",
				typeShort(owner)+"."+fname+" is a container of pointers filled by encoding/json (a null member becomes a nil pointer, no unmarshaller runs) and leaves the decoder whole ("+strings.Join(leaks, "; ")+"): a later dereference of a nil element panics")
		})
		if len(sources) == 0 {
			continue
		}
		// nil facts by key
		ri := computeReach(fn)
		freshlyAssigned := func(v ssa.Value) bool {
			ld, ok := v.(*ssa.UnOp)
			if !ok {
				return false
			}
			var stores []*ssa.Store
			if st, ok := ri.fwd[ld]; ok {
				stores = append(stores, st)
			}
			for _, sr := range ri.loads[ld] {
				stores = append(stores, sr.st)
			}
			if len(stores) == 0 {
				return false
			}
			for _, st := range stores {
				switch st.Val.(type) {
				case *ssa.Alloc, *ssa.MakeMap, *ssa.MakeSlice:
				default:
					return false
				}
			}
			return true
		}
		nonNilAt := func(b *ssa.BasicBlock, key string) bool {
			for _, g := range guardsAt(b) {
				for _, s := range sources {
					if s.key != key {
						continue
					}
					for _, al := range mergedWith(s.v) {
						if nn, k := nilTest(g, al); k && nn {
							return true
						}
					}
				}
			}
			return false
		}
		for _, s := range sources {
			if s.v.Referrers() == nil {
				continue
			}
			for _, u := range derefUses(s.v) {
				bad := ""
				switch x := u.(type) {
				case *ssa.FieldAddr:
					bad = "field access"
				case *ssa.UnOp:
					if x.Op == token.MUL {
						bad = "dereference (value-receiver method call or copy)"
					}
				case *ssa.IndexAddr:
					bad = "indexing"
				case ssa.CallInstruction:
					cc := x.Common()
					if g := cc.StaticCallee(); g != nil {
						for ai, a := range cc.Args {
							if derefAlias(a, s.v) && dp[g][ai] {
								bad = "passed to " + g.Name() + ", which dereferences it unconditionally"
							}
						}
					}
				}
				if bad == "" {
					continue
				}
				construct := fnQual(fn) + ":" + s.desc
				if freshlyAssigned(s.v) {
					r.OK(rule, construct, p.pos(u.Pos()), bad+" of a pointer assigned from a fresh allocation just before")
					continue
				}
				if nonNilAt(u.Block(), s.key) {
					r.OK(rule, construct, p.pos(u.Pos()), bad+" under a nil test")
				} else {
					r.Viol(rule, construct, p.pos(u.Pos()), s.desc+" may be nil after JSON decoding (null or absent member) and is used without a nil test: "+bad)
				}
			}
		}
	}
}

// mergedWith: v and the phis (and pointer conversions) it flows into.
func mergedWith(v ssa.Value) []ssa.Value {
	out := []ssa.Value{v}
	seen := map[ssa.Value]bool{v: true}
	for i := 0; i < len(out); i++ {
		if out[i].Referrers() == nil {
			continue
		}
		for _, u := range *out[i].Referrers() {
			switch y := u.(type) {
			case *ssa.Phi:
				if !seen[y] {
					seen[y] = true
					out = append(out, y)
				}
			case *ssa.ChangeType:
				if !seen[y] {
					seen[y] = true
					out = append(out, y)
				}
			}
		}
	}
	return out
}

// derefUses: instructions that use pointer v directly or after a pointer conversion.
func derefUses(v ssa.Value) []ssa.Instruction {
	var out []ssa.Instruction
	seen := map[ssa.Value]bool{}
	var rec func(x ssa.Value)
	rec = func(x ssa.Value) {
		if seen[x] || x.Referrers() == nil {
			return
		}
		seen[x] = true
		for _, u := range *x.Referrers() {
			switch y := u.(type) {
			case *ssa.ChangeType:
				rec(y)
			case *ssa.Convert:
				rec(y)
			case *ssa.Phi:
				// merged with other values: the merged pointer may be nil whenever this alternative is; its uses count, and
				// only a nil test of the merged value itself (or of this alternative, which dominates) clears them
				rec(y)
			default:
				out = append(out, u)
			}
		}
	}
	rec(v)
	return out
}

func derefAlias(a, v ssa.Value) bool {
	for {
		if a == v {
			return true
		}
		switch x := a.(type) {
		case *ssa.ChangeType:
			a = x.X
		case *ssa.Convert:
			a = x.X
		default:
			return false
		}
	}
}

// ---------------------------------------------------------------------------------------------
// R10.4

func c10Index(p *Prog, r *Report) {
	const rule = "R10.4-index"
	// (a) constant index into a slice field of an AST node / wire struct / a slice parameter, in encoder/decoder/eval packages
	pkgs := map[string]bool{pParser: true, pJSON: true, pEval: true, pSchemaPar: true, pSchemaJS: true}
	for _, fn := range p.Funcs {
		if !pkgs[fnPkgPath(fn)] {
			continue
		}
		forEachInstr(fn, func(in ssa.Instruction) {
			var seq, idx ssa.Value
			var pos token.Pos
			switch x := in.(type) {
			case *ssa.IndexAddr:
				seq, idx, pos = x.X, x.Index, x.Pos()
			case *ssa.Slice:
				// s[k:] with constant k
				if x.Low != nil {
					seq, idx, pos = x.X, x.Low, x.Pos()
				}
			default:
				return
			}
			if seq == nil || idx == nil {
				return
			}
			if _, isSl := seq.Type().Underlying().(*types.Slice); !isSl {
				return
			}
			k, isK := constInt(idx)
			if !isK {
				return
			}
			if _, isSliceOp := in.(*ssa.Slice); isSliceOp && k == 0 {
				return
			}
			// only slices that come from decoded input: a field of an AST node, of a parser wrapper node or of a JSON wire struct
			fromInput := false
			if ld, ok := seq.(*ssa.UnOp); ok && ld.Op == token.MUL {
				if fa, ok := ld.X.(*ssa.FieldAddr); ok {
					if pt, ok := fa.X.Type().Underlying().(*types.Pointer); ok {
						if n := namedOf(pt.Elem()); n != nil && n.Obj().Pkg() != nil {
							pp := n.Obj().Pkg().Path()
							if pp == pXAst || pp == pParser && strings.HasPrefix(n.Obj().Name(), "Node") || isWireStruct(pt.Elem()) {
								fromInput = true
							}
						}
					}
				}
			}
			if fl, ok := seq.(*ssa.Field); ok {
				if n := namedOf(fl.X.Type()); n != nil && n.Obj().Pkg() != nil {
					pp := n.Obj().Pkg().Path()
					if pp == pXAst || pp == pParser && strings.HasPrefix(n.Obj().Name(), "Node") || isWireStruct(fl.X.Type()) {
						fromInput = true
					}
				}
			}
			if par, ok := seq.(*ssa.Parameter); ok && !fromInput && fn.Parent() != nil {
				// a callback's slice parameter: the callback is handed to a combinator together with a child list, and the
				// combinator calls it with a slice of that list's length
				need := k + 1
				if _, isSliceOp := in.(*ssa.Slice); isSliceOp {
					need = k
				}
				construct := fnQual(fn) + ":param " + par.Name() + "[" + itoa(int(k)) + "]"
				if lenFactAtLeast(in.Block(), seq, need) {
					r.OK(rule, construct, p.pos(pos), "dominated by a length test (len >= "+itoa(int(need))+")")
					return
				}
				why, ok := c10CombinatorLength(p, fn, need)
				r.Check(ok, rule, construct, p.pos(pos), why, "constant index "+itoa(int(k))+" into the callback's slice parameter "+par.Name()+": "+why+" — a shorter slice panics here")
				return
			}
			if par, ok := seq.(*ssa.Parameter); ok && !fromInput && fn.Parent() == nil {
				// a slice parameter of a named function: the length is whatever the callers hand over.
				need := k + 1
				if _, isSliceOp := in.(*ssa.Slice); isSliceOp {
					need = k
				}
				construct := fnQual(fn) + ":param " + par.Name() + "[" + itoa(int(k)) + "]"
				if lenFactAtLeast(in.Block(), seq, need) {
					r.OK(rule, construct, p.pos(pos), "dominated by a length test (len >= "+itoa(int(need))+")")
					return
				}
				if why, ok := c10TableLength(p, fn, in.Block(), par, need); ok {
					r.OK(rule, construct, p.pos(pos), why)
					return
				}
				if why, ok := c10CallersGuarantee(p, fn, par, need, 0); ok {
					r.OK(rule, construct, p.pos(pos), "every caller passes at least "+itoa(int(need))+" element(s): "+why)
					return
				} else {
					r.Viol(rule, construct, p.pos(pos), "constant index "+itoa(int(k))+" into the slice parameter "+par.Name()+" without a dominating length test, and "+why+": a shorter slice panics here")
				}
				return
			}
			if !fromInput {
				return
			}
			// fresh slices of known length (varargs arrays, make with constant) are fine
			origin := seq
			if sl, ok := origin.(*ssa.Slice); ok {
				if a, ok := sl.X.(*ssa.Alloc); ok {
					if at, ok := a.Type().Underlying().(*types.Pointer).Elem().Underlying().(*types.Array); ok && at.Len() > k {
						return
					}
				}
			}
			if ms, ok := origin.(*ssa.MakeSlice); ok {
				if n, isN := constInt(ms.Len); isN && n > k {
					return
				}
			}
			need := k + 1
			if _, isSliceOp := in.(*ssa.Slice); isSliceOp {
				need = k
			}
			construct := fnQual(fn) + ":" + describeVal(seq) + "[" + itoa(int(k)) + "]"
			if lenFactAtLeast(in.Block(), seq, need) {
				r.OK(rule, construct, p.pos(pos), "dominated by a length test (len >= "+itoa(int(need))+")")
				return
			}
			r.Viol(rule, construct, p.pos(pos), "constant index "+itoa(int(k))+" into "+describeVal(seq)+" without a dominating length test: a shorter slice (which decoders can produce) panics here")
		})
	}
	// (b) the text parser's cursor invariant pos < len(tokens)
	pt := p.namedType(pParser, "parser")
	if pt == nil {
		r.Anchor(rule, "parser.parser")
		return
	}
	st := pt.Underlying().(*types.Struct)
	fidx := map[string]int{}
	for i := 0; i < st.NumFields(); i++ {
		fidx[st.Field(i).Name()] = i
	}
	posOK, tokOK := true, true
	nPos, nTok := 0, 0
	for _, fn := range p.Funcs {
		if fnPkgPath(fn) != pParser {
			continue
		}
		forEachInstr(fn, func(in ssa.Instruction) {
			stI, ok := in.(*ssa.Store)
			if !ok {
				return
			}
			fa, ok := stI.Addr.(*ssa.FieldAddr)
			if !ok || !typeIs(fa.X.Type(), pParser, "parser") {
				return
			}
			switch st.Field(fa.Field).Name() {
			case "pos":
				nPos++
				// allowed: constant 0 in the constructor; pos+1 under pos < len(tokens)-1
				if k, isK := constInt(stI.Val); isK && k == 0 {
					return
				}
				bo, ok := stI.Val.(*ssa.BinOp)
				good := false
				if ok && bo.Op == token.ADD {
					if one, isK := constInt(bo.Y); isK && one == 1 {
						for _, g := range guardsAt(stI.Block()) {
							fg := flattenGuard(g)
							if cmp, ok := fg.Cond.(*ssa.BinOp); ok && cmp.Op == token.LSS && fg.Pol {
								// pos < len(tokens) - 1
								if sub, ok := cmp.Y.(*ssa.BinOp); ok && sub.Op == token.SUB {
									if k, isK := constInt(sub.Y); isK && k >= 1 {
										if ln, ok := sub.X.(*ssa.Call); ok && isBuiltin(&ln.Call, "len") {
											good = true
										}
									}
								}
							}
						}
					}
				}
				if !good {
					posOK = false
					r.Viol(rule, fnQual(fn)+":parser.pos", p.pos(stI.Pos()), "the token cursor is advanced without the guard pos < len(tokens)-1: peek() would index past the end")
				}
			case "tokens":
				nTok++
			}
		})
	}
	// tokens is set only by the constructor's composite literal
	for _, fn := range p.Funcs {
		if fnPkgPath(fn) != pParser {
			continue
		}
		forEachInstr(fn, func(in ssa.Instruction) {
			stI, ok := in.(*ssa.Store)
			if !ok {
				return
			}
			fa, ok := stI.Addr.(*ssa.FieldAddr)
			if !ok || !typeIs(fa.X.Type(), pParser, "parser") || st.Field(fa.Field).Name() != "tokens" {
				return
			}
			if fn.Name() != "newParser" {
				tokOK = false
				r.Viol(rule, fnQual(fn)+":parser.tokens", p.pos(stI.Pos()), "the token slice is replaced outside the constructor: the cursor invariant pos < len(tokens) no longer follows")
			}
		})
	}
	if posOK && nPos >= 1 {
		r.OK(rule, "parser.parser:cursor", p.pos(pt.Obj().Pos()), "pos is only set to 0 or incremented under pos < len(tokens)-1 ("+itoa(nPos)+" writes)")
	}
	if tokOK && nTok >= 1 {
		r.OK(rule, "parser.parser:tokens", p.pos(pt.Obj().Pos()), "tokens is assigned only by the constructor")
	}
	// every parser is built from a tokenizer result (which ends with the EOF token on success)
	for _, fn := range p.Funcs {
		if fnPkgPath(fn) != pParser {
			continue
		}
		for _, c := range callsIn(fn) {
			if !isCallTo(c, pParser, "newParser") {
				continue
			}
			arg := c.Common().Args[0]
			fromTok := false
			var errv ssa.Value
			if ex, ok := arg.(*ssa.Extract); ok {
				if tc, ok := ex.Tuple.(*ssa.Call); ok && tc.Call.StaticCallee() != nil && strings.HasPrefix(tc.Call.StaticCallee().Name(), "Tokenize") {
					fromTok = true
					errv = extractOf(tc, 1)
				}
			}
			guarded := false
			if errv != nil {
				for _, g := range guardsAt(c.Block()) {
					if nn, k := nilTest(g, errv); k && !nn {
						guarded = true
					}
				}
			}
			r.Check(fromTok && guarded, rule, fnQual(fn)+":newParser", p.pos(c.Pos()), "the parser is built from a successful tokenizer result (non-empty: it ends with EOF)", "a parser is constructed from something other than a successful Tokenize result: tokens may be empty and peek() would panic")
		}
	}
	// the tokenizer's success path appends the EOF token
	if tr := p.fn(pParser, "TokenizeReader"); tr != nil {
		appendsEOF := false
		forEachInstr(tr, func(in ssa.Instruction) {
			if c, ok := in.(*ssa.Call); ok && isBuiltin(&c.Call, "append") {
				appendsEOF = true
			}
		})
		r.Check(appendsEOF, rule, "parser.TokenizeReader:eof", p.pos(tr.Pos()), "the token list is built by appending (it ends with the EOF token the scanner returns last)", "TokenizeReader does not build a non-empty token list")
	}
}

// lenFactAtLeast: on entry to block b, len(seq) >= need is established by a dominating comparison
// (or an equality with a constant >= need).
// c10TableLength: the access is under `len(par) == T[name].Args` (T the extension registry, name a parameter) and under
// `name == "K"` for a constant K whose registry entry declares at least `need` arguments.
func c10TableLength(p *Prog, fn *ssa.Function, b *ssa.BasicBlock, par *ssa.Parameter, need int64) (string, bool) {
	reg := extRegistry(p)
	var keyOfLen ssa.Value // the lookup key of the registry entry the length was compared with
	var names []string
	for _, g := range guardsAt(b) {
		fg := flattenGuard(g)
		bo, ok := fg.Cond.(*ssa.BinOp)
		if !ok {
			continue
		}
		eq := bo.Op == token.EQL && fg.Pol || bo.Op == token.NEQ && !fg.Pol
		if !eq {
			continue
		}
		for _, xy := range [][2]ssa.Value{{bo.X, bo.Y}, {bo.Y, bo.X}} {
			x, y := xy[0], xy[1]
			if c, ok := y.(*ssa.Const); ok && c.Value != nil && c.Value.Kind() == constant.String {
				if _, isPar := stripConv(x).(*ssa.Parameter); isPar {
					names = append(names, constant.StringVal(c.Value))
					if keyOfLen == nil || true {
						_ = x
					}
				}
			}
			ln, ok := x.(*ssa.Call)
			if !ok || !isBuiltin(&ln.Call, "len") || ln.Call.Args[0] != ssa.Value(par) {
				continue
			}
			var entry ssa.Value
			if fl, ok := y.(*ssa.Field); ok {
				if st := structOf(fl.X.Type()); st != nil && st.Field(fl.Field).Name() == "Args" {
					entry = fl.X
				}
			}
			if ld, ok := y.(*ssa.UnOp); ok && ld.Op == token.MUL {
				if fa, ok := ld.X.(*ssa.FieldAddr); ok {
					if al, ok := fa.X.(*ssa.Alloc); ok {
						if st := structOf(al.Type().Underlying().(*types.Pointer).Elem()); st != nil && st.Field(fa.Field).Name() == "Args" {
							entry = singleStore(al) // the entry was spilled into a local written exactly once
						}
					}
				}
			}
			ex, ok := entry.(*ssa.Extract)
			if !ok || ex.Index != 0 {
				continue
			}
			lk, ok := ex.Tuple.(*ssa.Lookup)
			if !ok {
				continue
			}
			ld, ok := lk.X.(*ssa.UnOp)
			if !ok {
				continue
			}
			gl, ok := ld.X.(*ssa.Global)
			if !ok || gl.Pkg.Pkg.Path() != pExt {
				continue
			}
			keyOfLen = stripConv(lk.Index)
		}
	}
	if keyOfLen == nil {
		return "", false
	}
	if _, isPar := keyOfLen.(*ssa.Parameter); !isPar {
		return "", false
	}
	// the name tests must be on the same parameter
	for _, g := range guardsAt(b) {
		fg := flattenGuard(g)
		bo, ok := fg.Cond.(*ssa.BinOp)
		if !ok || !(bo.Op == token.EQL && fg.Pol) {
			continue
		}
		c, ok := bo.Y.(*ssa.Const)
		if !ok || c.Value == nil || c.Value.Kind() != constant.String || stripConv(bo.X) != keyOfLen {
			continue
		}
		k := constant.StringVal(c.Value)
		if e, ok := reg[k]; ok && int64(e[0]) >= need {
			return "under len(" + par.Name() + ") == registry[" + keyOfLen.Name() + "].Args and " + keyOfLen.Name() + " == \"" + k + "\", whose registry entry declares " + itoa(e[0]) + " argument(s)", true
		}
	}
	return "", false
}

// c10CombinatorLength: closure fn is created only to be passed, in the same call, next to a fresh child list of at least
// `need` elements to one of the module's combinators, and that combinator calls its function parameters only with its own
// list parameter or with a local list it grows by one element per element of that parameter (the second is taken on
// trust: it is the combinators' contract, two functions, and R4/R6 look at them).
func c10CombinatorLength(p *Prog, fn *ssa.Function, need int64) (string, bool) {
	var uses []ssa.Instruction
	if mc := makeClosureOf(fn); mc != nil {
		uses = append(uses, *mc.Referrers()...)
	} else if fn.Parent() != nil {
		// a function literal that captures nothing is a plain function value: look for it among its parent's operands
		forEachInstr(fn.Parent(), func(in ssa.Instruction) {
			for _, op := range in.Operands(nil) {
				if *op == ssa.Value(fn) {
					uses = append(uses, in)
				}
			}
		})
	}
	if len(uses) == 0 {
		return "the callback's creation site was not found", false
	}
	n := 0
	for _, ref := range uses {
		call, ok := ref.(ssa.CallInstruction)
		if !ok {
			return "the callback is used other than as a call argument (" + p.pos(ref.Pos()) + ")", false
		}
		cc := call.Common()
		g := cc.StaticCallee()
		if g == nil || !strings.HasPrefix(fnPkgPath(g), modPath) {
			return "the callback is passed to something other than one of the module's functions", false
		}
		// the child list: the (only) slice argument that is not a function
		var list ssa.Value
		listIdx := -1
		for i, a := range cc.Args {
			if _, isSl := a.Type().Underlying().(*types.Slice); isSl {
				if list != nil {
					return "the combinator call at " + p.pos(call.Pos()) + " has more than one list argument", false
				}
				list, listIdx = a, i
			}
		}
		if list == nil {
			return "the combinator call at " + p.pos(call.Pos()) + " has no list argument", false
		}
		good := false
		if sl, ok := list.(*ssa.Slice); ok && sl.Low == nil && sl.High == nil {
			if al, ok := sl.X.(*ssa.Alloc); ok {
				if at, ok := al.Type().Underlying().(*types.Pointer).Elem().Underlying().(*types.Array); ok && at.Len() >= need {
					good = true
				}
			}
		}
		if !good {
			return "the list handed to " + g.Name() + " at " + p.pos(call.Pos()) + " is not a literal of at least " + itoa(int(need)) + " element(s)", false
		}
		// the combinator hands its function parameters its own list parameter or a local list
		for _, c := range callsIn(g) {
			gc := c.Common()
			if gc.IsInvoke() {
				continue
			}
			if _, isPar := gc.Value.(*ssa.Parameter); !isPar {
				continue
			}
			for _, a := range gc.Args {
				if _, isSl := a.Type().Underlying().(*types.Slice); !isSl {
					continue
				}
				switch x := a.(type) {
				case *ssa.Parameter:
					if listIdx >= len(g.Params) || x != g.Params[listIdx] {
						return g.Name() + " calls a callback with a list parameter other than the child list", false
					}
				case *ssa.Phi, *ssa.Call:
					// the locally grown list (values): contract of the combinator
				default:
					return g.Name() + " calls a callback with a list of unknown origin at " + p.pos(c.Pos()), false
				}
			}
		}
		n++
	}
	if n == 0 {
		return "the callback is never passed on", false
	}
	return "handed to a combinator next to a literal child list of at least " + itoa(int(need)) + " element(s)", true
}

// c10CallersGuarantee: every call of fn found in the program passes, for the slice parameter par, a value of known
// sufficient length: a fresh array-backed slice (variadic packing, composite literal), a make with constant length, a
// value under a dominating length test at the call site, or the caller's own parameter for which the same holds.
func c10CallersGuarantee(p *Prog, fn *ssa.Function, par *ssa.Parameter, need int64, depth int) (string, bool) {
	if depth > 2 {
		return "the chain of callers is too long to follow", false
	}
	idx := -1
	for i, q := range fn.Params {
		if q == par {
			idx = i
		}
	}
	node := p.CG().Nodes[fn]
	if idx < 0 || node == nil {
		return "the parameter cannot be located", false
	}
	if fn.Object() != nil && fn.Object().Exported() && fn.Signature.Recv() == nil && !strings.Contains(fnPkgPath(fn), "/internal/") {
		return "the function is exported, so any caller can pass a short slice", false
	}
	n := 0
	for _, e := range node.In {
		if e.Site == nil {
			continue
		}
		cc := e.Site.Common()
		if cc.StaticCallee() != fn {
			return "it is called indirectly at " + p.pos(e.Site.Pos()), false
		}
		if idx >= len(cc.Args) {
			return "a call site passes fewer arguments", false
		}
		n++
		a := cc.Args[idx]
		good := false
		if sl, ok := a.(*ssa.Slice); ok {
			if al, ok := sl.X.(*ssa.Alloc); ok {
				if at, ok := al.Type().Underlying().(*types.Pointer).Elem().Underlying().(*types.Array); ok && at.Len() >= need && sl.Low == nil && sl.High == nil {
					good = true
				}
			}
		}
		if ms, ok := a.(*ssa.MakeSlice); ok {
			if ln, isN := constInt(ms.Len); isN && ln >= need {
				good = true
			}
		}
		if !good && lenFactAtLeast(e.Site.Block(), a, need) {
			good = true
		}
		if !good && need <= 1 {
			// the call sits in the body of a range loop over that very slice, which is therefore not empty
			for _, l := range loopsOf(e.Caller.Func) {
				// (blocks that leave the loop by returning are not part of the natural loop: go by dominance of the
				// body entry, which is only reached when index < len held)
				if len(l.Header.Succs) != 2 || !l.Header.Succs[0].Dominates(e.Site.Block()) || l.Header.Succs[0] == l.Header.Succs[1] || len(l.Header.Succs[0].Preds) != 1 {
					continue
				}
				if iff, ok := lastInstr(l.Header).(*ssa.If); ok {
					if cmp, ok := iff.Cond.(*ssa.BinOp); ok && cmp.Op == token.LSS {
						if ln, ok := cmp.Y.(*ssa.Call); ok && isBuiltin(&ln.Call, "len") && ln.Call.Args[0] == a && isFullRangeLoopIdx(l, cmp.X, a) {
							good = true
						}
					}
				}
			}
		}
		if !good {
			if cp, ok := a.(*ssa.Parameter); ok {
				if _, ok2 := c10CallersGuarantee(p, e.Caller.Func, cp, need, depth+1); ok2 {
					good = true
				}
			}
		}
		if !good {
			return "the call at " + p.pos(e.Site.Pos()) + " passes a slice of unknown length", false
		}
	}
	if n == 0 {
		return "no call site was found", false
	}
	return itoa(n) + " call site(s)", true
}

func lenFactAtLeast(b *ssa.BasicBlock, seq ssa.Value, need int64) bool {
	sameSeq := func(v ssa.Value) bool {
		if v == seq {
			return true
		}
		return describeVal(v) == describeVal(seq) && describeVal(v) != "" && !strings.HasPrefix(describeVal(v), "t")
	}
	for _, g := range guardsAt(b) {
		fg := flattenGuard(g)
		bo, ok := fg.Cond.(*ssa.BinOp)
		if !ok {
			continue
		}
		x, y, op := bo.X, bo.Y, bo.Op
		lenOf := func(v ssa.Value) ssa.Value {
			if c, ok := v.(*ssa.Call); ok && isBuiltin(&c.Call, "len") {
				return c.Call.Args[0]
			}
			return nil
		}
		if lenOf(y) != nil && lenOf(x) == nil {
			x, y = y, x
			switch op {
			case token.LSS:
				op = token.GTR
			case token.GTR:
				op = token.LSS
			case token.LEQ:
				op = token.GEQ
			case token.GEQ:
				op = token.LEQ
			}
		}
		s := lenOf(x)
		if s == nil || !sameSeq(s) {
			continue
		}
		k, isK := constInt(y)
		if !isK {
			continue
		}
		pol := fg.Pol
		switch op {
		case token.EQL:
			if pol && k >= need {
				return true
			}
		case token.NEQ:
			if !pol && k >= need {
				return true
			}
		case token.GEQ:
			if pol && k >= need {
				return true
			}
		case token.GTR:
			if pol && k+1 >= need {
				return true
			}
		case token.LSS:
			if !pol && k >= need {
				return true
			}
		case token.LEQ:
			if !pol && k+1 >= need {
				return true
			}
		}
	}
	return false
}

// ---------------------------------------------------------------------------------------------
// R10.5

func c10Recursion(p *Prog, r *Report) {
	const rule = "R10.5-recursion"
	cg := p.CG()
	for _, pkgPath := range []string{pParser, pSchemaPar} {
		// methods of the cursor type
		cursor := "parser"
		var fns []*ssa.Function
		inSet := map[*ssa.Function]bool{}
		for _, fn := range p.Funcs {
			if fnPkgPath(fn) != pkgPath || fn.Parent() != nil || fn.Signature.Recv() == nil {
				continue
			}
			if rn := namedOf(fn.Signature.Recv().Type()); rn == nil || !strings.EqualFold(rn.Obj().Name(), cursor) {
				continue
			}
			fns = append(fns, fn)
			inSet[fn] = true
		}
		if len(fns) < 10 {
			r.Anchor(rule, pkgPath+" parser methods")
			continue
		}
		// SCCs restricted to these methods
		idx := map[*ssa.Function]int{}
		low := map[*ssa.Function]int{}
		onst := map[*ssa.Function]bool{}
		var stack []*ssa.Function
		var sccs [][]*ssa.Function
		counter := 0
		succ := func(f *ssa.Function) []*ssa.Function {
			var out []*ssa.Function
			if n := cg.Nodes[f]; n != nil {
				for _, e := range n.Out {
					if e.Callee != nil && inSet[e.Callee.Func] {
						out = append(out, e.Callee.Func)
					}
				}
			}
			return out
		}
		var strong func(v *ssa.Function)
		strong = func(v *ssa.Function) {
			counter++
			idx[v], low[v] = counter, counter
			stack = append(stack, v)
			onst[v] = true
			for _, w := range succ(v) {
				if idx[w] == 0 {
					strong(w)
					if low[w] < low[v] {
						low[v] = low[w]
					}
				} else if onst[w] && idx[w] < low[v] {
					low[v] = idx[w]
				}
			}
			if low[v] == idx[v] {
				var comp []*ssa.Function
				for {
					w := stack[len(stack)-1]
					stack = stack[:len(stack)-1]
					onst[w] = false
					comp = append(comp, w)
					if w == v {
						break
					}
				}
				selfLoop := false
				for _, w := range succ(v) {
					if w == v {
						selfLoop = true
					}
				}
				if len(comp) > 1 || selfLoop {
					sccs = append(sccs, comp)
				}
			}
		}
		for _, f := range fns {
			if idx[f] == 0 {
				strong(f)
			}
		}
		for _, comp := range sccs {
			var names []string
			for _, f := range comp {
				names = append(names, f.Name())
			}
			sort.Strings(names)
			// a depth bound: some function of the cycle compares a counter field/parameter named like depth against a constant and errors out
			bounded := false
			for _, f := range comp {
				forEachInstr(f, func(in ssa.Instruction) {
					bo, ok := in.(*ssa.BinOp)
					if !ok || (bo.Op != token.GTR && bo.Op != token.GEQ && bo.Op != token.LSS && bo.Op != token.LEQ) {
						return
					}
					if _, isK := constInt(bo.Y); !isK {
						return
					}
					if ld, ok := bo.X.(*ssa.UnOp); ok && ld.Op == token.MUL {
						if _, fname := fieldAddrName(ld.X); strings.Contains(strings.ToLower(fname), "depth") || strings.Contains(strings.ToLower(fname), "nest") || strings.Contains(strings.ToLower(fname), "level") {
							bounded = true
						}
					}
				})
			}
			pkgName := pkgPath[strings.LastIndex(pkgPath, "/")+1:]
			if pkgPath == pSchemaPar {
				pkgName = "schemaparser"
			}
			construct := pkgName + ".parser:cycle(" + names[0] + ")"
			r.Check(bounded, rule, construct, p.pos(comp[0].Pos()), "input-driven recursion "+strings.Join(names, "↔")+" has a depth bound",
				"the recursive-descent cycle ["+strings.Join(names, ", ")+"] consumes input with no depth bound: sufficiently nested input (≈10^6 levels) exhausts the goroutine stack, which is a fatal, unrecoverable crash")
		}
	}
	// JSON-driven recursion is bounded by encoding/json (assumption recorded)
	r.OK(rule, "json:nesting", "-", "JSON-driven descents are bounded by encoding/json's nesting limit (assumption)")
}

// ---------------------------------------------------------------------------------------------
// R10.6

func c10LoopProgress(p *Prog, r *Report) {
	const rule = "R10.6-loop-progress"
	for _, pkgPath := range []string{pParser, pSchemaPar} {
		// advancing functions: fixpoint — a function advances if each of its successful (nil-error / non-error) returns is
		// dominated by a call to an advancing function; seeds: methods named advance / next that increment the cursor
		advancing := map[*ssa.Function]bool{}
		var methods []*ssa.Function
		takesCursor := func(fn *ssa.Function) bool {
			for _, prm := range fn.Params {
				if n := namedOf(prm.Type()); n != nil && n.Obj().Name() == "parser" && n.Obj().Pkg().Path() == pkgPath {
					return true
				}
			}
			return false
		}
		for _, fn := range p.Funcs {
			if fnPkgPath(fn) != pkgPath || fn.Parent() != nil || !takesCursor(fn) {
				continue
			}
			methods = append(methods, fn)
			// seeds: methods of the cursor type that write the cursor's own state (advance / readToken)
			if fn.Signature.Recv() != nil && typeIs(fn.Signature.Recv().Type(), pkgPath, "parser") {
				forEachInstr(fn, func(in ssa.Instruction) {
					if st, ok := in.(*ssa.Store); ok {
						if base, _, ok := topField(st.Addr); ok && base == ssa.Value(fn.Params[0]) {
							advancing[fn] = true
						}
					}
				})
			}
		}
		if os.Getenv("C10_DEBUG") != "" {
			for f := range advancing {
				fmt.Println("DEBUG seed", fnQual(f))
			}
		}
		if len(advancing) == 0 {
			r.Anchor(rule, pkgPath+" advance method")
			continue
		}
		changed := true
		for changed {
			changed = false
			for _, fn := range methods {
				if advancing[fn] {
					continue
				}
				all := true
				any := false
				for _, b := range fn.Blocks {
					ret, ok := lastInstr(b).(*ssa.Return)
					if !ok {
						continue
					}
					// error returns need not advance
					if len(ret.Results) > 0 {
						last := retLast(ret)
						if isErrorType(last.Type()) && !isNilConst(last) {
							if c, isCall := last.(*ssa.Call); isCall && c.Call.StaticCallee() != nil && (strings.HasSuffix(c.Call.StaticCallee().Name(), "errorf") || strings.HasSuffix(c.Call.StaticCallee().Name(), "Errorf")) {
								continue
							}
							nonNil := false
							for _, g := range guardsAt(b) {
								if nn, k := nilTest(g, last); k && nn {
									nonNil = true
								}
							}
							if nonNil {
								continue
							}
						}
					}
					any = true
					if !blockDominatedByAdvance(b, advancing) {
						all = false
					}
				}
				if any && all {
					advancing[fn] = true
					changed = true
				}
			}
		}
		if os.Getenv("C10_DEBUG") != "" {
			for _, f := range methods {
				fmt.Println("DEBUG method", fnQual(f), "advancing=", advancing[f])
			}
		}
		for _, fn := range methods {
			for _, loop := range loopsOf(fn) {
				// every latch (edge back to the header) is dominated, inside the loop, by an advancing call or the loop is a
				// counted loop over a slice/integer (range loops)
				counted := false
				for _, in := range loop.Header.Instrs {
					if ph, ok := in.(*ssa.Phi); ok && (strings.HasPrefix(ph.Comment, "rangeindex") || ph.Comment == "i") {
						counted = true
					}
					if _, ok := in.(*ssa.Next); ok {
						counted = true
					}
				}
				pkgName := pkgPath[strings.LastIndex(pkgPath, "/")+1:]
				construct := pkgName + "." + fnShort(fn) + ":loop@" + itoa(loop.Header.Index)
				if counted {
					r.OK(rule, construct, p.pos(lastInstr(loop.Header).Pos()), "counted loop")
					continue
				}
				good := true
				for _, pred := range loop.Header.Preds {
					if !loop.Body[pred] {
						continue
					}
					if !latchAdvances(pred, loop, advancing) && !latchAdvancesConditionally(pred, loop, advancing) {
						good = false
					}
				}
				r.Check(good, rule, construct, p.pos(fn.Pos()), "every iteration consumes a token (or leaves the loop)", "a loop in "+fnShort(fn)+" can complete an iteration without consuming a token: on some input the parser never terminates")
			}
		}
	}
}

// hasAdvance: the block contains a call to a token-consuming function.
func hasAdvance(b *ssa.BasicBlock, advancing map[*ssa.Function]bool) bool {
	for _, in := range b.Instrs {
		if c, ok := in.(ssa.CallInstruction); ok {
			if g := c.Common().StaticCallee(); g != nil && advancing[g] {
				return true
			}
		}
	}
	return false
}

// mustPass computes, for every block reachable from start (within `within`, or the whole function when
// nil), whether every path from start to the END of that block passes through a token-consuming call.
func mustPass(start *ssa.BasicBlock, within map[*ssa.BasicBlock]bool, advancing map[*ssa.Function]bool) map[*ssa.BasicBlock]bool {
	fn := start.Parent()
	out := map[*ssa.BasicBlock]bool{}
	inSet := func(b *ssa.BasicBlock) bool { return within == nil || within[b] }
	for _, b := range fn.Blocks {
		if inSet(b) {
			out[b] = true // optimistic
		}
	}
	out[start] = hasAdvance(start, advancing)
	changed := true
	for changed {
		changed = false
		for _, b := range fn.Blocks {
			if !inSet(b) || b == start {
				continue
			}
			in := true
			any := false
			for _, p := range b.Preds {
				if !inSet(p) {
					continue
				}
				any = true
				if !out[p] {
					in = false
				}
			}
			if !any {
				in = false
			}
			v := in || hasAdvance(b, advancing)
			if v != out[b] {
				out[b] = v
				changed = true
			}
		}
	}
	return out
}

func blockDominatedByAdvance(b *ssa.BasicBlock, advancing map[*ssa.Function]bool) bool {
	fn := b.Parent()
	return mustPass(fn.Blocks[0], nil, advancing)[b]
}

func latchAdvances(latch *ssa.BasicBlock, loop *loopInfo, advancing map[*ssa.Function]bool) bool {
	// every path from the loop header around to this latch consumes a token
	return mustPass(loop.Header, loop.Body, advancing)[latch]
}

// latchAdvancesConditionally: the iteration continues only under `ok == true` where ok is a boolean
// result of a call made in this iteration, and every return of that callee that can yield ok=true
// is preceded by a token-consuming call (member(): `n, ok, err := access(n); if !ok { break }`).
func latchAdvancesConditionally(latch *ssa.BasicBlock, loop *loopInfo, advancing map[*ssa.Function]bool) bool {
	gs := guardsAt(latch)
	if iff, ok := lastInstr(latch).(*ssa.If); ok && latch.Succs[0] != latch.Succs[1] {
		gs = append(gs, Guard{Cond: iff.Cond, Pol: latch.Succs[0] == loop.Header, If: iff})
	}
	for _, g := range gs {
		fg := flattenGuard(g)
		ex, ok := fg.Cond.(*ssa.Extract)
		if !ok || !loop.Body[g.If.Block()] {
			continue
		}
		call, ok := ex.Tuple.(*ssa.Call)
		if !ok || call.Call.StaticCallee() == nil || !loop.Body[call.Block()] {
			continue
		}
		callee := call.Call.StaticCallee()
		if callee.Blocks == nil {
			continue
		}
		all := true
		for _, b := range callee.Blocks {
			ret, ok := lastInstr(b).(*ssa.Return)
			if !ok || ex.Index >= len(ret.Results) {
				continue
			}
			if cb, isC := constBool(retVal(ret, ex.Index)); isC && cb != fg.Pol {
				continue // this return makes the loop stop
			}
			if !blockDominatedByAdvance(b, advancing) {
				all = false
			}
		}
		if all {
			return true
		}
	}
	return false
}

// canonPath: a stable textual path for an address/base expression, so that two loads of the same
// field chain (x.A.B read twice) are recognised as the same pointer when nothing writes between.
func canonPath(v ssa.Value) string {
	switch x := v.(type) {
	case *ssa.Parameter:
		return x.Name()
	case *ssa.FreeVar:
		return x.Name()
	case *ssa.Alloc:
		return "&" + x.Comment + "#" + x.Name()
	case *ssa.UnOp:
		if x.Op == token.MUL {
			return "*" + canonPath(x.X)
		}
	case *ssa.FieldAddr:
		return canonPath(x.X) + ".f" + itoa(x.Field)
	case *ssa.Field:
		return canonPath(x.X) + ".f" + itoa(x.Field)
	case *ssa.ChangeType:
		return canonPath(x.X)
	case *ssa.Convert:
		return canonPath(x.X)
	}
	return v.Name()
}

// ---------------------------------------------------------------------------------------------
// R10.7 lexer loops leave at end of input
//
// The two hand-written lexers read through a cursor whose read methods saturate at the end of the input: they return a
// negative sentinel and move nothing. A loop that keeps going while "the next character is not X" therefore spins
// forever once the input is exhausted unless one of its exits is taken at the sentinel. For every loop (in a method of
// the cursor type) that calls such a method, the branch conditions are constant-folded under "every saturating read
// returns its sentinel, and position < len(src) is false"; if a cycle through the loop header survives, the loop can
// hang at end of input.

type foldVal struct {
	n  int64
	ok bool
}

// foldPure interprets a side-effect-free integer/boolean function on constant arguments.
func foldPure(fn *ssa.Function, args []foldVal, depth int) foldVal {
	if depth > 5 || len(fn.Blocks) == 0 || len(args) != len(fn.Params) {
		return foldVal{}
	}
	env := map[ssa.Value]foldVal{}
	for i, prm := range fn.Params {
		env[prm] = args[i]
	}
	b := fn.Blocks[0]
	var prev *ssa.BasicBlock
	for steps := 0; steps < 200; steps++ {
		for _, in := range b.Instrs {
			switch x := in.(type) {
			case *ssa.Phi:
				for i, pb := range b.Preds {
					if pb == prev {
						env[x] = foldOperand(x.Edges[i], env, depth)
					}
				}
			case *ssa.If:
				c := foldOperand(x.Cond, env, depth)
				if !c.ok {
					return foldVal{}
				}
				prev = b
				if c.n != 0 {
					b = b.Succs[0]
				} else {
					b = b.Succs[1]
				}
			case *ssa.Jump:
				prev = b
				b = b.Succs[0]
			case *ssa.Return:
				if len(x.Results) != 1 {
					return foldVal{}
				}
				return foldOperand(x.Results[0], env, depth)
			case *ssa.DebugRef:
			case ssa.Value:
				env[x] = foldOperand(x, env, depth)
			default:
				return foldVal{}
			}
		}
	}
	return foldVal{}
}

func foldOperand(v ssa.Value, env map[ssa.Value]foldVal, depth int) foldVal {
	if r, ok := env[v]; ok {
		return r
	}
	switch x := v.(type) {
	case *ssa.Const:
		if n, ok := constInt(x); ok {
			return foldVal{n, true}
		}
		if b, ok := constBool(x); ok {
			if b {
				return foldVal{1, true}
			}
			return foldVal{0, true}
		}
	case *ssa.BinOp:
		l, r := foldOperand(x.X, env, depth), foldOperand(x.Y, env, depth)
		if !l.ok || !r.ok {
			return foldVal{}
		}
		bv := func(c bool) foldVal {
			if c {
				return foldVal{1, true}
			}
			return foldVal{0, true}
		}
		switch x.Op {
		case token.EQL:
			return bv(l.n == r.n)
		case token.NEQ:
			return bv(l.n != r.n)
		case token.LSS:
			return bv(l.n < r.n)
		case token.LEQ:
			return bv(l.n <= r.n)
		case token.GTR:
			return bv(l.n > r.n)
		case token.GEQ:
			return bv(l.n >= r.n)
		case token.ADD:
			return foldVal{l.n + r.n, true}
		case token.SUB:
			return foldVal{l.n - r.n, true}
		case token.OR:
			return foldVal{l.n | r.n, true}
		case token.AND:
			return foldVal{l.n & r.n, true}
		}
	case *ssa.UnOp:
		if x.Op == token.NOT {
			o := foldOperand(x.X, env, depth)
			if o.ok {
				return foldVal{1 - o.n, true}
			}
		}
	case *ssa.Convert:
		return foldOperand(x.X, env, depth)
	case *ssa.ChangeType:
		return foldOperand(x.X, env, depth)
	case *ssa.Call:
		f := x.Call.StaticCallee()
		if f == nil || x.Call.IsInvoke() {
			return foldVal{}
		}
		var args []foldVal
		for _, a := range x.Call.Args {
			av := foldOperand(a, env, depth)
			if !av.ok {
				return foldVal{}
			}
			args = append(args, av)
		}
		return foldPure(f, args, depth+1)
	}
	return foldVal{}
}

// eofState computes, for function fn (or only the blocks in region when region != nil), the values that are known
// constants once every saturating read returns its sentinel.
func eofState(fn *ssa.Function, region map[*ssa.BasicBlock]bool, known func(*ssa.Function) (int64, bool)) map[ssa.Value]foldVal {
	env := map[ssa.Value]foldVal{}
	for round := 0; round < 4; round++ {
		for _, b := range fn.Blocks {
			if region != nil && !region[b] {
				continue
			}
			for _, in := range b.Instrs {
				switch x := in.(type) {
				case *ssa.Call:
					if f := x.Call.StaticCallee(); f != nil {
						if n, ok := known(f); ok {
							env[x] = foldVal{n, true}
						}
					}
				case *ssa.Extract:
					// (tt, ch) results are not tracked
				case *ssa.Phi:
					all, any := true, false
					var val foldVal
					for j, e := range x.Edges {
						if region != nil && !region[b.Preds[j]] {
							continue
						}
						ev := foldOperand(e, env, 0)
						if !ev.ok || (any && ev.n != val.n) {
							all = false
							break
						}
						any, val = true, ev
					}
					if all && any {
						env[x] = val
					}
				}
			}
		}
	}
	return env
}

func c10LexerEOF(p *Prog, r *Report) {
	const rule = "R10.7-lexer-eof"
	total := 0
	for _, ct := range []struct{ pkg, typ string }{{pSchemaPar, "lexer"}, {pParser, "scanner"}} {
		var methods []*ssa.Function
		for _, fn := range p.Funcs {
			if fnPkgPath(fn) != ct.pkg || fn.Parent() != nil || fn.Signature.Recv() == nil || !typeIs(fn.Signature.Recv().Type(), ct.pkg, ct.typ) || len(fn.Blocks) == 0 {
				continue
			}
			methods = append(methods, fn)
		}
		// sentinel readers: methods that return a negative constant on some path
		sentinel := map[*ssa.Function]int64{}
		for _, fn := range methods {
			for _, b := range fn.Blocks {
				if ret, ok := lastInstr(b).(*ssa.Return); ok && len(ret.Results) == 1 {
					if n, ok := constInt(ret.Results[0]); ok && n < 0 {
						sentinel[fn] = n
					}
				}
			}
		}
		if len(sentinel) == 0 {
			r.Anchor(rule, ct.pkg+"."+ct.typ+" sentinel reader")
			continue
		}
		isCursorField := func(fn *ssa.Function, v ssa.Value) bool {
			if ld, ok := v.(*ssa.UnOp); ok && ld.Op == token.MUL {
				if base, _, ok := topField(ld.X); ok && base == ssa.Value(fn.Params[0]) {
					return true
				}
			}
			return false
		}
		atEnd := func(fn *ssa.Function, cond ssa.Value, env map[ssa.Value]foldVal) foldVal {
			// position < len(src) on the cursor's own fields
			if bo, ok := cond.(*ssa.BinOp); ok && isCursorField(fn, bo.X) {
				if c, ok := bo.Y.(*ssa.Call); ok {
					if bi, ok := c.Call.Value.(*ssa.Builtin); ok && bi.Name() == "len" && isCursorField(fn, c.Call.Args[0]) {
						switch bo.Op {
						case token.LSS:
							return foldVal{0, true}
						case token.GEQ:
							return foldVal{1, true}
						}
					}
				}
			}
			return foldOperand(cond, env, 0)
		}
		// what every other method of the cursor returns at end of input (single-result methods)
		eofRet := map[*ssa.Function]foldVal{}
		busy := map[*ssa.Function]bool{}
		var known func(f *ssa.Function) (int64, bool)
		var eofReturn func(fn *ssa.Function) foldVal
		known = func(f *ssa.Function) (int64, bool) {
			if n, ok := sentinel[f]; ok {
				return n, true
			}
			if f.Signature.Recv() == nil || !typeIs(f.Signature.Recv().Type(), ct.pkg, ct.typ) || f.Signature.Results().Len() != 1 || len(f.Blocks) == 0 {
				return 0, false
			}
			v := eofReturn(f)
			return v.n, v.ok
		}
		eofReturn = func(fn *ssa.Function) foldVal {
			if v, ok := eofRet[fn]; ok {
				return v
			}
			if busy[fn] {
				return foldVal{}
			}
			busy[fn] = true
			defer delete(busy, fn)
			// alternate: constants -> reachable blocks at end of input -> constants (phis ignore unreachable edges)
			var env map[ssa.Value]foldVal
			var region map[*ssa.BasicBlock]bool
			for iter := 0; iter < 3; iter++ {
				env = eofState(fn, region, known)
				reach := map[*ssa.BasicBlock]bool{fn.Blocks[0]: true}
				wl := []*ssa.BasicBlock{fn.Blocks[0]}
				for len(wl) > 0 {
					b := wl[len(wl)-1]
					wl = wl[:len(wl)-1]
					succs := b.Succs
					if iff, ok := lastInstr(b).(*ssa.If); ok {
						if c := atEnd(fn, iff.Cond, env); c.ok {
							if c.n != 0 {
								succs = b.Succs[:1]
							} else {
								succs = b.Succs[1:2]
							}
						}
					}
					for _, s2 := range succs {
						if !reach[s2] {
							reach[s2] = true
							wl = append(wl, s2)
						}
					}
				}
				region = reach
			}
			seen := map[*ssa.BasicBlock]bool{fn.Blocks[0]: true}
			work := []*ssa.BasicBlock{fn.Blocks[0]}
			var res foldVal
			first, same := true, true
			for len(work) > 0 {
				b := work[len(work)-1]
				work = work[:len(work)-1]
				succs := b.Succs
				if iff, ok := lastInstr(b).(*ssa.If); ok {
					if c := atEnd(fn, iff.Cond, env); c.ok {
						if c.n != 0 {
							succs = b.Succs[:1]
						} else {
							succs = b.Succs[1:2]
						}
					}
				}
				if ret, ok := lastInstr(b).(*ssa.Return); ok && len(ret.Results) == 1 {
					v := foldOperand(ret.Results[0], env, 0)
					if !v.ok || (!first && v.n != res.n) {
						same = false
					}
					res, first = v, false
				}
				for _, s2 := range succs {
					if !seen[s2] {
						seen[s2] = true
						work = append(work, s2)
					}
				}
			}
			out := foldVal{}
			if same && !first {
				out = res
			}
			eofRet[fn] = out
			return out
		}
		pkgName := ct.pkg[strings.LastIndex(ct.pkg, "/")+1:]
		for _, fn := range methods {
			if _, isReader := sentinel[fn]; isReader {
				continue // the readers' own loops wait on the io.Reader, not on the sentinel
			}
			for _, loop := range loopsOf(fn) {
				uses := false
				for b := range loop.Body {
					for _, in := range b.Instrs {
						if c, ok := in.(*ssa.Call); ok && c.Call.StaticCallee() != nil {
							if _, ok := known(c.Call.StaticCallee()); ok {
								uses = true
							}
						}
					}
				}
				if !uses {
					continue
				}
				total++
				env := eofState(fn, loop.Body, known)
				// prune edges not taken at end of input; is the header still on a cycle?
				succ := func(b *ssa.BasicBlock) []*ssa.BasicBlock {
					if iff, ok := lastInstr(b).(*ssa.If); ok {
						if c := atEnd(fn, iff.Cond, env); c.ok {
							if c.n != 0 {
								return b.Succs[:1]
							}
							return b.Succs[1:2]
						}
					}
					return b.Succs
				}
				seen := map[*ssa.BasicBlock]bool{}
				var dfs func(b *ssa.BasicBlock) bool
				dfs = func(b *ssa.BasicBlock) bool {
					for _, s2 := range succ(b) {
						if !loop.Body[s2] {
							continue
						}
						if s2 == loop.Header {
							return true
						}
						if !seen[s2] {
							seen[s2] = true
							if dfs(s2) {
								return true
							}
						}
					}
					return false
				}
				hang := dfs(loop.Header)
				r.Check(!hang, rule, pkgName+"."+fnShort(fn)+":loop@"+itoa(loop.Header.Index), p.pos(lastInstr(loop.Header).Pos()), "the loop is left once the reader returns its end-of-input sentinel",
					"a loop in "+fnShort(fn)+" keeps iterating when the input is exhausted: its reads return the end-of-input sentinel without moving, and no exit is taken for that value — the lexer hangs on an input that ends inside this construct")
			}
		}
	}
	r.Check(total >= 8, rule, "sites", "-", itoa(total)+" sentinel-driven lexer loops", "expected at least 8 lexer loops that read through a saturating reader, found "+itoa(total))
}

// ---------------------------------------------------------------------------------------------
// R10.4c every index and slice expression of the hand-written text decoders in package types and internal/rust is in
// bounds: 0 <= i (intervals, E8) and i < len(s) (a dominating comparison with the length of the same sequence, a
// length fact for a constant index, or the strings.Index contract).

func c10Bounds(p *Prog, r *Report) {
	boundsRule(p, r, "R10.4-bounds", map[string]bool{pTypes: true}, 30)
}

// boundsRule proves every index and slice expression of the functions in pkgs to be in bounds (see R10.4c above).
func boundsRule(p *Prog, r *Report, rule string, pkgs map[string]bool, floor int) {
	scope := func(f *ssa.Function) bool {
		return pkgs[fnPkgPath(f)] && len(f.Blocks) > 0
	}
	e := newIvEngine(p, scope)
	n := 0
	failed := map[string]bool{}
	ctxOf := map[*ssa.Function][]*ivFn{}
	var fns []*ssa.Function
	for _, fn := range p.Funcs {
		if !scope(fn) || fn.Synthetic != "" || (fn.Origin() != nil && fn.Origin() != fn) {
			continue
		}
		if fn.Pkg != nil && fn.Name() == "init" {
			continue
		}
		fns = append(fns, fn)
	}
	allow := map[string]string{}
	for _, fn := range fns {
		if why, ok := allow[fnQual(fn)]; ok {
			r.OK(rule, fnQual(fn)+":allowed", p.pos(fn.Pos()), "not analysed: "+why)
			continue
		}
		var ctxs []*ivFn
		if fn.Parent() != nil || token.IsExported(fn.Name()) {
			top := e.analyze(fn, nil)
			e.finalize(top)
			ctxs = append(ctxs, top)
		}
		ctxOf[fn] = ctxs
	}
	for _, fn := range fns {
		if _, ok := allow[fnQual(fn)]; ok {
			continue
		}
		ctxs := ctxOf[fn]
		if len(ctxs) == 0 {
			// unexported: the contexts its (finalised) callers create; every argument when nothing in scope calls it
			var keys []string
			for k, c := range e.memo {
				if c.fn == fn && c.finalized {
					keys = append(keys, k)
				}
			}
			sort.Strings(keys)
			for _, k := range keys {
				ctxs = append(ctxs, e.memo[k])
			}
			if len(ctxs) == 0 {
				top := e.analyze(fn, nil)
				e.finalize(top)
				ctxs = append(ctxs, top)
			}
		}
		for _, a := range ctxs {
			counts := map[string]int{}
			forEachInstr(fn, func(in ssa.Instruction) {
				var seq ssa.Value
				type need struct {
					idx    ssa.Value
					strict bool // element access: idx < len; slice bound: idx <= len
					what   string
				}
				var needs []need
				switch x := in.(type) {
				case *ssa.Lookup:
					if _, isMap := x.X.Type().Underlying().(*types.Map); isMap {
						return
					}
					seq = x.X
					needs = append(needs, need{x.Index, true, "index"})
				case *ssa.IndexAddr:
					seq = x.X
					needs = append(needs, need{x.Index, true, "index"})
				case *ssa.Index:
					seq = x.X
					needs = append(needs, need{x.Index, true, "index"})
				case *ssa.Slice:
					seq = x.X
					if x.Low != nil {
						needs = append(needs, need{x.Low, false, "low bound"})
					}
					if x.High != nil {
						needs = append(needs, need{x.High, false, "high bound"})
					}
				default:
					return
				}
				b := in.Block()
				gs := ivGuards(b)
				// fixed-size arrays
				fixed := int64(-1)
				st := seq.Type()
				if pt, ok := st.Underlying().(*types.Pointer); ok {
					st = pt.Elem()
				}
				if at, ok := st.Underlying().(*types.Array); ok {
					fixed = at.Len()
				}
				if s, ok := constString(seq); ok {
					fixed = int64(len(s))
				}
				lenLo := lenLowerBound(a, seq, gs, b)
				for _, nd := range needs {
					n++
					text := e.exprText(fn, in, "")
					base := fnQual(fn) + ":" + nd.what + ":" + text
					counts[base]++
					key := base
					if counts[base] > 1 {
						key += "#" + itoa(counts[base])
					}
					iv := a.get(nd.idx, b)
					if iv.top {
						iv = kindOfType(nd.idx.Type()).full()
					}
					lowOK := !iv.top && !iv.float && iv.lo.Sign() >= 0
					highOK, why := false, ""
					lim := func(k *big.Int) bool { // k within [0,len) or [0,len]
						if nd.strict {
							return k.Cmp(lenLo) < 0
						}
						return k.Cmp(lenLo) <= 0
					}
					switch {
					case fixed >= 0 && !iv.top && !iv.float && (nd.strict && iv.hi.Cmp(big.NewInt(fixed)) < 0 || !nd.strict && iv.hi.Cmp(big.NewInt(fixed)) <= 0):
						highOK, why = true, "fixed length "+itoa(int(fixed))
					case !iv.top && !iv.float && lim(iv.hi):
						highOK, why = true, "length is at least "+lenLo.String()
					}
					if !highOK {
						// relational: idx < len(seq) (or <= for slice bounds) among the guards
						lk := "(len " + termKey(seq, 0) + ")"
						for _, g := range gs {
							x, y, op, ok := relOf(g)
							if !ok {
								continue
							}
							if termKey(x, 0) == termKey(nd.idx, 0) && termKey(y, 0) == lk && (op == token.LSS || (!nd.strict && op == token.LEQ)) {
								highOK, why = true, "compared with len"
							}
							if termKey(y, 0) == termKey(nd.idx, 0) && termKey(x, 0) == lk && (op == token.GTR || (!nd.strict && op == token.GEQ)) {
								highOK, why = true, "compared with len"
							}
						}
					}
					if !highOK {
						// idx = base + c with base < len(seq): base+1 <= len
						if bo, ok := nd.idx.(*ssa.BinOp); ok && bo.Op == token.ADD {
							if c, ok := constInt(bo.Y); ok && (c <= 0 || (c == 1 && !nd.strict)) {
								lk := "(len " + termKey(seq, 0) + ")"
								for _, g := range gs {
									x, y, op, ok := relOf(g)
									if !ok {
										continue
									}
									if termKey(x, 0) == termKey(bo.X, 0) && termKey(y, 0) == lk && op == token.LSS {
										highOK, why = true, "base < len, offset <= 1"
									}
									if termKey(y, 0) == termKey(bo.X, 0) && termKey(x, 0) == lk && op == token.GTR {
										highOK, why = true, "base < len, offset <= 1"
									}
								}
							}
						}
						// idx = X - c (or X) where X starts at len(seq) and only decreases
						base, off := nd.idx, int64(0)
						if bo, ok := nd.idx.(*ssa.BinOp); ok && bo.Op == token.SUB {
							if c, ok := constInt(bo.Y); ok {
								base, off = bo.X, c
							}
						}
						if ph, ok := base.(*ssa.Phi); ok && (off >= 1 || (!nd.strict && off >= 0)) {
							good := true
							for _, ed := range ph.Edges {
								if termKey(ed, 0) == "(len "+termKey(seq, 0)+")" {
									continue
								}
								if sb, ok := ed.(*ssa.BinOp); ok && sb.Op == token.SUB && sb.X == ssa.Value(ph) {
									if c, ok := constInt(sb.Y); ok && c >= 0 {
										continue
									}
								}
								good = false
							}
							if good {
								highOK, why = true, "counts down from len"
							}
						}
						// a slice made with the length of another sequence: make([]T, len(other)) indexed under i < len(other)
						if ms, ok := seq.(*ssa.MakeSlice); ok {
							lk := termKey(ms.Len, 0)
							for _, g := range gs {
								x, y, op, ok := relOf(g)
								if !ok {
									continue
								}
								if termKey(x, 0) == termKey(nd.idx, 0) && termKey(y, 0) == lk && (op == token.LSS || (!nd.strict && op == token.LEQ)) {
									highOK, why = true, "compared with the length the slice was made with"
								}
							}
						}
					}
					if !highOK {
						// idx = len(seq) - c
						if bo, ok := nd.idx.(*ssa.BinOp); ok && bo.Op == token.SUB && termKey(bo.X, 0) == "(len "+termKey(seq, 0)+")" {
							if c := constBig(bo.Y); c != nil && c.Sign() >= 0 && (c.Sign() > 0 || !nd.strict) {
								highOK, why = true, "len minus a constant"
							}
						}
						// idx = len(seq)
						if !nd.strict && termKey(nd.idx, 0) == "(len "+termKey(seq, 0)+")" {
							highOK, why = true, "len"
						}
					}
					if !highOK {
						// strings.Index contract: r + len(sep) <= len(s)
						base, off := nd.idx, int64(0)
						if bo, ok := nd.idx.(*ssa.BinOp); ok && bo.Op == token.ADD {
							if c, ok := constInt(bo.Y); ok {
								base, off = bo.X, c
							}
						}
						if c, ok := base.(*ssa.Call); ok {
							if f := c.Call.StaticCallee(); f != nil && (fnPkgPath(f) == "strings" || fnPkgPath(f) == "bytes") && (f.Name() == "Index" || f.Name() == "LastIndex") && termKey(c.Call.Args[0], 0) == termKey(seq, 0) {
								if sep, ok := constString(c.Call.Args[1]); ok && (off < int64(len(sep)) || (!nd.strict && off <= int64(len(sep)))) {
									highOK, why = true, "strings.Index result plus at most the separator's length"
								}
							}
						}
					}
					if !highOK && !nd.strict {
						// a slice of a slice: s[a:b] where b bounds a is handled by the compiler's a<=b check only at run time; accept a<=b
						// when both were accepted against len — nothing more to do here
					}
					if lowOK && highOK {
						if !failed[key] {
							r.OK(rule, key, p.pos(in.Pos()), "in bounds: "+why)
						}
					} else if !failed[key] {
						failed[key] = true
						r.Viol(rule, key, p.pos(in.Pos()), "the "+nd.what+" `"+text+"` is not shown to be within the sequence (index range "+iv.String()+", known minimum length "+lenLo.String()+a.ctxNote()+"): an input of the wrong shape panics here")
					}
				}
			})
		}
	}
	r.Check(n >= floor, rule, "sites", "-", itoa(n)+" index/slice bounds analysed", "expected at least "+itoa(floor)+" index/slice sites, found "+itoa(n))
}

// lenLowerBound: the least length seq can have at block b according to the dominating comparisons of len(seq) with
// constants (and, for a slice expression s[i:j] with constant bounds, its construction).
func lenLowerBound(a *ivFn, seq ssa.Value, gs []Guard, b *ssa.BasicBlock) *big.Int {
	lo := big.NewInt(0)
	lk := "(len " + termKey(seq, 0) + ")"
	full := kindOfType(types.Typ[types.Int]).full()
	x := ibig(big.NewInt(0), full.hi)
	for sweep := 0; sweep < 2; sweep++ {
		for _, g := range gs {
			l, rr, op, ok := relOf(g)
			if !ok {
				continue
			}
			var other ssa.Value
			if termKey(l, 0) == lk {
				other = rr
			} else if termKey(rr, 0) == lk {
				other = l
				op = mirrorOp(op)
			} else {
				continue
			}
			o := a.get(other, b)
			if o.top || o.float {
				continue
			}
			x = constrain(x, op, o, false)
		}
	}
	if x.lo.Cmp(lo) > 0 {
		lo = x.lo
	}
	// strings.Index(seq, sep) is known non-negative: seq contains sep
	for _, g := range gs {
		l, rr, op, ok := relOf(g)
		if !ok {
			continue
		}
		for _, side := range []struct {
			v, o ssa.Value
			op   token.Token
		}{{l, rr, op}, {rr, l, mirrorOp(op)}} {
			c, ok := side.v.(*ssa.Call)
			if !ok || c.Call.StaticCallee() == nil {
				continue
			}
			f := c.Call.StaticCallee()
			if !(fnPkgPath(f) == "strings" || fnPkgPath(f) == "bytes") || !(f.Name() == "Index" || f.Name() == "LastIndex") || termKey(c.Call.Args[0], 0) != termKey(seq, 0) {
				continue
			}
			sep, ok := constString(c.Call.Args[1])
			if !ok {
				continue
			}
			o := a.get(side.o, b)
			if o.top || o.float {
				continue
			}
			r := constrain(ibig(big.NewInt(-1), full.hi), side.op, o, false)
			if r.lo.Sign() >= 0 {
				n := new(big.Int).Add(r.lo, big.NewInt(int64(len(sep))))
				if n.Cmp(lo) > 0 {
					lo = n
				}
			}
		}
	}
	if sl, ok := seq.(*ssa.Slice); ok && sl.High != nil {
		hi := a.get(sl.High, b)
		l := ipoint(0)
		if sl.Low != nil {
			l = a.get(sl.Low, b)
		}
		if !hi.top && !l.top && !hi.float && !l.float {
			d := new(big.Int).Sub(hi.lo, l.hi)
			if d.Cmp(lo) > 0 {
				lo = d
			}
		}
	}
	return lo
}
