package main

// C20 — policy containers behave as an id-keyed map over any history of operations.

import (
	"go/token"
	"go/types"
	"strings"

	"golang.org/x/tools/go/ssa"
)

func init() {
	register(&propCheck{
		ID: "C20",
		Explanation: "Structural check of the PolicySet container: R20.1 the set's only state is one map; Add stores exactly (id -> policy) into it and reports the pre-state " +
			"absence, Remove deletes exactly id and reports the pre-state presence, Get is a plain lookup; no other method writes the map (mod-ref summaries); R20.2 no method returns " +
			"the map itself (only clones, elements or iterators) and constructors/decoders install a freshly allocated map; R20.3 the document loader assigns policy<i> with i the " +
			"index in the parsed list, stamps the file name on every policy (loop without early exit), and returns no partial set on error; R20.4 the text encoder sorts ids " +
			"before writing; R20.5 Policy and PolicySet carry no other mutable field in which compiled state could go stale; R20.6 document order does not depend on goroutine completion order; " +
			"R20.7 an iterator handed out by the set reads the set's state when it runs, not when it was made (the decoders replace the map, so a captured map is a stale copy); R20.8 a decoder " +
			"touches the receiver only on paths that cannot end in an error (a rejected document leaves the set as it was). Not decided: Go's own map semantics. R20.9 the policy-set JSON emitter takes string escaping from encoding/json.",
		Run: runC20,
	})
}

func runC20(p *Prog, r *Report) {
	ps := p.namedType(pRoot, "PolicySet")
	if ps == nil {
		r.Anchor("R20.1-state", "cedar.PolicySet")
		return
	}
	st, ok := ps.Underlying().(*types.Struct)
	if !ok {
		r.Anchor("R20.1-state", "cedar.PolicySet struct")
		return
	}
	jsonEmittersQuoteAsJSON(p, r, "R20.9-json-quoting", 15)
	// one place holds the policies: fields that cannot hold a policy or an id (a mutex, a flag, a counter) are not the
	// rule's business; a second field that can (a slice of entries next to the map, an index, a cache) is a second copy of
	// the state that every mutator would have to keep in step
	var mentions func(t types.Type, seen map[types.Type]bool) bool
	mentions = func(t types.Type, seen map[types.Type]bool) bool {
		if seen[t] {
			return false
		}
		seen[t] = true
		if typeIs(t, pRoot, "Policy") || typeIs(t, pTypes, "PolicyID") || typeIs(t, pRoot, "PolicyID") {
			return true
		}
		switch u := t.Underlying().(type) {
		case *types.Pointer:
			return mentions(u.Elem(), seen)
		case *types.Slice:
			return mentions(u.Elem(), seen)
		case *types.Array:
			return mentions(u.Elem(), seen)
		case *types.Map:
			return mentions(u.Key(), seen) || mentions(u.Elem(), seen)
		case *types.Struct:
			if n := namedOf(t); n != nil && n.Obj().Pkg() != nil && !strings.HasPrefix(n.Obj().Pkg().Path(), modPath) {
				return false
			}
			for i := 0; i < u.NumFields(); i++ {
				if mentions(u.Field(i).Type(), seen) {
					return true
				}
			}
		}
		return false
	}
	holders := 0
	var names []string
	for i := 0; i < st.NumFields(); i++ {
		if mentions(st.Field(i).Type(), map[types.Type]bool{}) {
			holders++
			names = append(names, st.Field(i).Name())
		}
	}
	r.Check(holders == 1, "R20.5-single-state", "cedar-go.PolicySet", p.pos(ps.Obj().Pos()),
		"exactly one field of PolicySet can hold policies or ids (the id->policy map)", "PolicySet has "+itoa(holders)+" fields that can hold policies or ids ("+strings.Join(names, ", ")+"): a second one is a second copy of the state that every mutator has to keep in step with the map (e.g. a list or cache that goes stale on replacement)")

	// the Policy struct: evaluator + ast only
	if pol := p.namedType(pRoot, "Policy"); pol != nil {
		if pst, ok := pol.Underlying().(*types.Struct); ok {
			names := []string{}
			for i := 0; i < pst.NumFields(); i++ {
				names = append(names, pst.Field(i).Name())
			}
			r.Check(pst.NumFields() == 2, "R20.5-single-state", "cedar-go.Policy", p.pos(pol.Obj().Pos()), "Policy = {compiled evaluator, ast}", "Policy has fields ["+strings.Join(names, ",")+"]: extra per-policy state may make authorization depend on history")
		}
	}

	isMapOfRecv := func(fn *ssa.Function, v ssa.Value) bool {
		ld, ok := v.(*ssa.UnOp)
		if !ok || ld.Op != token.MUL {
			return false
		}
		fa, ok := ld.X.(*ssa.FieldAddr)
		if !ok || fa.X != fn.Params[0] {
			return false
		}
		// the field that holds the policies, wherever it sits in the struct
		_, isMap := st.Field(fa.Field).Type().Underlying().(*types.Map)
		return isMap && mentions(st.Field(fa.Field).Type(), map[types.Type]bool{})
	}
	add := p.fn(pRoot, "PolicySet.Add")
	rem := p.fn(pRoot, "PolicySet.Remove")
	get := p.fn(pRoot, "PolicySet.Get")
	if add == nil || rem == nil || get == nil {
		r.Anchor("R20.1-state", "PolicySet.Add/Remove/Get")
		return
	}
	preLookup := func(fn *ssa.Function) *ssa.Lookup {
		var out *ssa.Lookup
		forEachInstr(fn, func(in ssa.Instruction) {
			if lk, ok := in.(*ssa.Lookup); ok && lk.CommaOk && isMapOfRecv(fn, lk.X) && lk.Index == fn.Params[1] {
				out = lk
			}
		})
		return out
	}
	// Add
	{
		var ups []*ssa.MapUpdate
		forEachInstr(add, func(in ssa.Instruction) {
			if mu, ok := in.(*ssa.MapUpdate); ok {
				ups = append(ups, mu)
			}
		})
		pos := p.pos(add.Pos())
		good := len(ups) == 1 && len(add.Params) == 3 && isMapOfRecv(add, ups[0].Map) && ups[0].Key == add.Params[1] && ups[0].Value == add.Params[2] && ups[0].Block().Dominates(add.Blocks[len(add.Blocks)-1]) && ups[0].Block() == add.Blocks[0]
		r.Check(good, "R20.1-state", "cedar-go.PolicySet.Add:store", pos, "Add stores policies[id] = policy unconditionally", "Add must perform exactly one unconditional update policies[policyID] = policy")
		lk := preLookup(add)
		retOK := false
		if lk != nil && len(ups) == 1 && instrDominates(lk, ups[0]) {
			ex := extractOf(lk, 1)
			retOK = true
			for _, b := range add.Blocks {
				if ret, ok := lastInstr(b).(*ssa.Return); ok {
					u, ok := ret.Results[0].(*ssa.UnOp)
					if !ok || u.Op != token.NOT || u.X != ex {
						retOK = false
					}
				}
			}
		}
		r.Check(retOK, "R20.1-state", "cedar-go.PolicySet.Add:result", pos, "Add reports absence in the pre-state", "Add's result must be the negated presence of the id looked up before the update")
	}
	// Remove
	{
		var dels []*ssa.Call
		forEachInstr(rem, func(in ssa.Instruction) {
			if c, ok := in.(*ssa.Call); ok && isBuiltin(&c.Call, "delete") {
				dels = append(dels, c)
			}
		})
		pos := p.pos(rem.Pos())
		good := len(dels) == 1 && isMapOfRecv(rem, dels[0].Call.Args[0]) && dels[0].Call.Args[1] == rem.Params[1] && dels[0].Block() == rem.Blocks[0]
		r.Check(good, "R20.1-state", "cedar-go.PolicySet.Remove:delete", pos, "Remove deletes policies[id] unconditionally", "Remove must perform exactly one unconditional delete(policies, policyID)")
		lk := preLookup(rem)
		retOK := false
		if lk != nil && len(dels) == 1 && instrDominates(lk, dels[0]) {
			ex := extractOf(lk, 1)
			retOK = true
			for _, b := range rem.Blocks {
				if ret, ok := lastInstr(b).(*ssa.Return); ok && ret.Results[0] != ex {
					retOK = false
				}
			}
		}
		r.Check(retOK, "R20.1-state", "cedar-go.PolicySet.Remove:result", pos, "Remove reports presence in the pre-state", "Remove's result must be the presence of the id looked up before the delete")
	}
	// Get
	{
		good := false
		for _, b := range get.Blocks {
			if ret, ok := lastInstr(b).(*ssa.Return); ok {
				v := ret.Results[0]
				if ex, ok := v.(*ssa.Extract); ok {
					v = ex.Tuple
				}
				if lk, ok := v.(*ssa.Lookup); ok && isMapOfRecv(get, lk.X) && lk.Index == get.Params[1] {
					good = true
				} else {
					good = false
					break
				}
			}
		}
		r.Check(good && len(get.Blocks) == 1, "R20.1-state", "cedar-go.PolicySet.Get", p.pos(get.Pos()), "Get is a plain lookup policies[id]", "Get must return policies[policyID] and nothing else")
	}

	// who writes the map: only Add/Remove/UnmarshalJSON among all functions of the root package (by summaries)
	m := p.modref()
	for _, u := range m.units {
		if fnPkgPath(u) != pRoot || u.Signature.Recv() == nil || !typeIs(u.Signature.Recv().Type(), pRoot, "PolicySet") {
			continue
		}
		s := m.sums[u]
		writesRecv := false
		for k := range s.writes {
			if k.Kind == okParam && k.Idx == 0 {
				writesRecv = true
			}
		}
		name := u.Name()
		allowed := name == "Add" || name == "Remove" || strings.HasPrefix(name, "Unmarshal")
		q := fnQual(u)
		if writesRecv && !allowed {
			r.Viol("R20.1-state", q+":writes-set", p.pos(u.Pos()), "method "+name+" writes the policy set although it is not a mutator (only Add, Remove and the decoders may)")
		} else {
			r.OK("R20.1-state", q+":writes-set", p.pos(u.Pos()), boolStr(writesRecv, "tabled mutator", "does not write the set"))
		}
		// R20.2: no result aliases the map itself
		leak := false
		for _, ra := range s.retAlias {
			for k := range ra {
				if k.Kind == okParam && k.Idx == 0 && k.Deep && k.Via1 == 1 {
					leak = true
				}
			}
		}
		r.Check(!leak, "R20.2-no-alias", q, p.pos(u.Pos()), "does not return the internal map", "method "+name+" returns the PolicySet's internal map itself: callers can then mutate the set behind its back")
	}
	// decoders replace the whole set: every map update in UnmarshalJSON goes to a map allocated in that call
	if uj := p.fn(pRoot, "PolicySet.UnmarshalJSON"); uj != nil {
		u := m.unitInfo[uj]
		n := 0
		for _, f := range withAnon(uj) {
			forEachInstr(f, func(in ssa.Instruction) {
				mu, ok := in.(*ssa.MapUpdate)
				if !ok || u == nil {
					return
				}
				n++
				fresh := true
				for l := range u.val(mu.Map).flat() {
					if l.o.key.Kind != okSite {
						fresh = false
					}
				}
				r.Check(fresh, "R20.1-state", fnQual(uj)+":replaces-contents", p.pos(mu.Pos()), "decoded policies go into a map allocated by this call (the previous contents are replaced)", "UnmarshalJSON adds the decoded policies to a map that may be the set's previous one: decoding into a used set merges instead of replacing")
			})
		}
		if n == 0 {
			r.Undec("R20.1-state", fnQual(uj)+":replaces-contents", p.pos(uj.Pos()), "no map update found in the decoder")
		}
	} else {
		r.Anchor("R20.1-state", "PolicySet.UnmarshalJSON")
	}
	// constructors install fresh maps: any function in the root package that stores into a PolicySet.policies field
	for _, fn := range p.Funcs {
		if fnPkgPath(fn) != pRoot {
			continue
		}
		u := m.unitInfo[topOf(fn)]
		if u == nil {
			continue
		}
		forEachInstr(fn, func(in ssa.Instruction) {
			st, ok := in.(*ssa.Store)
			if !ok {
				return
			}
			// field store into PolicySet.policies or whole-struct store of a PolicySet value
			var stored locset
			what := ""
			if fa, ok := st.Addr.(*ssa.FieldAddr); ok && typeIs(fa.X.Type(), pRoot, "PolicySet") && fa.Field == 0 {
				stored = u.val(st.Val).flat()
				what = "policies field"
			} else if typeIs(st.Val.Type(), pRoot, "PolicySet") {
				if _, isPtr := st.Val.Type().(*types.Pointer); !isPtr {
					stored = u.val(st.Val).flat()
					what = "PolicySet value"
				}
			}
			if what == "" {
				return
			}
			fresh := true
			for l := range stored {
				if l.o.key.Kind != okSite {
					fresh = false
				}
			}
			r.Check(fresh, "R20.2-no-alias", fnQual(fn)+":install-map", p.pos(st.Pos()), "installs a freshly allocated map", "a PolicySet is given a map that is not freshly allocated here (it may alias a caller's or another set's map)")
		})
	}

	c20LazyIterators(p, r, ps, st)
	c20FailedDecode(p, r, ps)
	checkLoader(p, r)
	checkSortedIDs(p, r)
	// document order of a loaded list (and with it the policy<n> ids) must not depend on goroutine completion order
	checkScheduleOrderAs(p, r, p.c14Reach(), "R20.6-schedule-order")
	r.Floor("R20.1-state", 8)
	r.Floor("R20.2-no-alias", 8)
	r.Floor("R20.3-loader", 4)
	r.Floor("R20.4-sorted-emission", 1)
}

func checkLoader(p *Prog, r *Report) {
	const rule = "R20.3-loader"
	fn := p.fn(pRoot, "NewPolicySetFromBytes")
	lf := p.fn(pRoot, "NewPolicyListFromBytes")
	if fn == nil || lf == nil {
		r.Anchor(rule, "NewPolicySetFromBytes / NewPolicyListFromBytes")
		return
	}
	q := fnQual(fn)
	var listCall *ssa.Call
	for _, c := range callsIn(fn) {
		if c.Common().StaticCallee() == lf {
			listCall, _ = c.(*ssa.Call)
		}
	}
	if listCall == nil {
		r.Viol(rule, q+":uses-list-loader", p.pos(fn.Pos()), "NewPolicySetFromBytes no longer builds on NewPolicyListFromBytes (ids and file names would be assigned by different code)")
		return
	}
	r.Check(listCall.Call.Args[0] == fn.Params[0] && listCall.Call.Args[1] == fn.Params[1], rule, q+":uses-list-loader", p.pos(listCall.Pos()),
		"parses the given document with the given file name", "the list loader is not called with (fileName, document)")
	list := extractOf(listCall, 0)
	errv := extractOf(listCall, 1)
	// map updates: key = PolicyID(Sprintf("policy%d", i)), value = list[i]
	var ups []*ssa.MapUpdate
	forEachInstr(fn, func(in ssa.Instruction) {
		if mu, ok := in.(*ssa.MapUpdate); ok {
			ups = append(ups, mu)
		}
	})
	if len(ups) != 1 || list == nil || errv == nil {
		r.Undec(rule, q+":id-assignment", p.pos(fn.Pos()), "expected exactly one map update building the set")
		return
	}
	mu := ups[0]
	good := false
	var why string
	// value
	ld, ok := mu.Value.(*ssa.UnOp)
	var idx ssa.Value
	if ok && ld.Op == token.MUL {
		if ia, ok := ld.X.(*ssa.IndexAddr); ok && ia.X == list {
			idx = ia.Index
		}
	}
	if idx == nil {
		why = "the stored policy is not the list element at the loop index"
	} else {
		loop := innermostLoop(loopsOf(fn), mu.Block())
		if loop == nil || !isFullRangeLoopIdx(loop, idx, list) {
			why = "the loop does not range over the whole parsed list"
		} else if c, ok := stripConv(mu.Key).(*ssa.Call); ok && c.Call.StaticCallee() != nil && c.Call.StaticCallee().String() == "fmt.Sprintf" {
			format, _ := constString(c.Call.Args[0])
			// the single vararg must be the index
			argOK := false
			if sl, ok := c.Call.Args[1].(*ssa.Slice); ok {
				if arr, ok := sl.X.(*ssa.Alloc); ok {
					for _, ref := range *arr.Referrers() {
						if ia, ok := ref.(*ssa.IndexAddr); ok {
							for _, rr := range *ia.Referrers() {
								if st, ok := rr.(*ssa.Store); ok && stripConv(st.Val) == idx {
									argOK = true
								}
							}
						}
					}
				}
			}
			if format != "policy%d" {
				why = "id format is " + format + ", documented format is policy<n>"
			} else if !argOK {
				why = "the id number is not the position in the document"
			} else {
				good = true
			}
		} else {
			why = "the id is not fmt.Sprintf(\"policy%d\", index)"
		}
	}
	r.Check(good, rule, q+":id-assignment", p.pos(mu.Pos()), "ids are policy<i> with i the document position, value the i-th policy", "default policy ids: "+why)
	// error path: guarded return before building
	errGuard := false
	for _, g := range guardsAt(mu.Block()) {
		if nn, ok := nilTest(g, errv); ok && !nn {
			errGuard = true
		}
	}
	r.Check(errGuard, rule, q+":no-partial-set", p.pos(mu.Pos()), "the set is built only when parsing succeeded", "policies are added to the set on a path where the parse error has not been excluded")

	// list loader: SetFilename on every element
	lq := fnQual(lf)
	var sf *ssa.Call
	for _, c := range callsIn(lf) {
		if isCallTo(c, pRoot, "Policy.SetFilename") {
			sf, _ = c.(*ssa.Call)
		}
	}
	if sf == nil {
		r.Viol(rule, lq+":filename", p.pos(lf.Pos()), "the list loader does not stamp the file name on the parsed policies")
		return
	}
	loop := innermostLoop(loopsOf(lf), sf.Block())
	okLoop := false
	if loop != nil {
		if ld, ok := sf.Call.Args[0].(*ssa.UnOp); ok && ld.Op == token.MUL {
			if ia, ok := ld.X.(*ssa.IndexAddr); ok && isFullRangeLoopIdx(loop, ia.Index, ia.X) {
				// no path through the body avoids the call; only exit is the header
				only := true
				for _, e := range loop.exitEdges() {
					if e[0] != loop.Header {
						only = false
					}
				}
				avoid := map[*ssa.BasicBlock]bool{sf.Block(): true}
				skip := false
				for _, s := range loop.Header.Succs {
					if loop.Body[s] && reachableAvoiding(s, loop.Header, avoid) {
						skip = true
					}
				}
				okLoop = only && !skip
			}
		}
	}
	r.Check(okLoop && sf.Call.Args[1] == lf.Params[0], rule, lq+":filename", p.pos(sf.Pos()), "every parsed policy gets the given file name", "SetFilename(fileName) is not applied to every element of the parsed list (early exit, skipped element or different name)")
}

// isFullRangeLoopIdx: idx is the `for range` index (phi from -1, +1, compared < len(seq)).
func isFullRangeLoopIdx(loop *loopInfo, idx ssa.Value, seq ssa.Value) bool {
	bo, ok := idx.(*ssa.BinOp)
	if !ok || bo.Op != token.ADD {
		return false
	}
	if one, ok := constInt(bo.Y); !ok || one != 1 {
		return false
	}
	phi, ok := bo.X.(*ssa.Phi)
	if !ok || phi.Block() != loop.Header {
		return false
	}
	for i, e := range phi.Edges {
		if loop.Body[phi.Block().Preds[i]] {
			if e != bo {
				return false
			}
		} else if k, ok := constInt(e); !ok || k != -1 {
			return false
		}
	}
	iff, ok := lastInstr(loop.Header).(*ssa.If)
	if !ok {
		return false
	}
	cmp, ok := iff.Cond.(*ssa.BinOp)
	if !ok || cmp.Op != token.LSS || cmp.X != bo {
		return false
	}
	ln, ok := cmp.Y.(*ssa.Call)
	if !ok || !isBuiltin(&ln.Call, "len") || ln.Call.Args[0] != seq {
		return false
	}
	return loop.Body[loop.Header.Succs[0]]
}

// checkSortedIDs: PolicySet.MarshalCedar sorts the collected ids before the loop that writes.
func checkSortedIDs(p *Prog, r *Report) { checkSortedIDsAs(p, r, "R20.4-sorted-emission") }

// checkSortedIDsAs runs the documented-order rule under the given rule name (C08 claims it too: "a set of policies parses
// back to the same policies in the documented order").
func checkSortedIDsAs(p *Prog, r *Report, rule string) {
	fn := p.fn(pRoot, "PolicySet.MarshalCedar")
	if fn == nil {
		r.Anchor(rule, "PolicySet.MarshalCedar")
		return
	}
	var sortCall ssa.CallInstruction
	var writes []ssa.CallInstruction
	for _, c := range callsIn(fn) {
		f := c.Common().StaticCallee()
		if f == nil {
			continue
		}
		n := stdName(f)
		if n == "slices.Sort" || n == "sort.Strings" {
			sortCall = c
		}
		if n == "slices.SortFunc" || n == "sort.Slice" || n == "slices.SortStableFunc" {
			// a custom comparator: only a plain string comparison of the two ids is the documented order
			plain := false
			if len(c.Common().Args) == 2 {
				var cmpFn *ssa.Function
				switch x := c.Common().Args[1].(type) {
				case *ssa.Function:
					cmpFn = x
				case *ssa.MakeClosure:
					cmpFn, _ = x.Fn.(*ssa.Function)
				}
				if cmpFn != nil && len(cmpFn.Blocks) == 1 {
					for _, cc := range callsIn(cmpFn) {
						if g := cc.Common().StaticCallee(); g != nil && (stdName(g) == "strings.Compare" || stdName(g) == "cmp.Compare") {
							a0, a1 := stripConv(cc.Common().Args[0]), stripConv(cc.Common().Args[1])
							if a0 == ssa.Value(cmpFn.Params[0]) && a1 == ssa.Value(cmpFn.Params[1]) {
								plain = true
							}
						}
					}
				}
			}
			if plain {
				sortCall = c
			} else {
				r.Viol(rule, fnQual(fn)+":comparator", p.pos(c.Pos()), "policy ids are sorted with a custom comparator that is not the plain string comparison: the documented emission order is lexicographic by id")
			}
		}
		if strings.HasPrefix(n, "(*bytes.Buffer).Write") {
			writes = append(writes, c)
		}
	}
	if sortCall == nil {
		r.Viol(rule, fnQual(fn), p.pos(fn.Pos()), "PolicySet.MarshalCedar does not sort the policy ids: output order would follow map iteration order")
		return
	}
	good := len(writes) > 0
	for _, w := range writes {
		if !instrDominates(sortCall, w) {
			good = false
		}
	}
	// the written policies are looked up by the sorted ids: the loop containing the writes ranges over the sorted slice
	sorted := sortCall.Common().Args[0]
	w := buildWebs(fn)
	overSorted := false
	for _, wr := range writes {
		if loop := innermostLoop(loopsOf(fn), wr.Block()); loop != nil {
			for _, in := range loop.Header.Instrs {
				_ = in
			}
			for b := range loop.Body {
				for _, in := range b.Instrs {
					if ia, ok := in.(*ssa.IndexAddr); ok && w.same(ia.X, sorted) {
						overSorted = true
					}
				}
			}
			for _, in := range loop.Header.Instrs {
				if _, isNext := in.(*ssa.Next); isNext {
					overSorted = false
					good = false
				}
			}
		}
	}
	r.Check(good && overSorted, rule, fnQual(fn), p.pos(sortCall.Pos()), "ids are sorted before any byte is written and the writing loop walks the sorted ids", "the sort of the ids does not dominate every write, or the writing loop does not walk the sorted slice")
}

// R20.7 — iterators read the set when they run. The decoders install a new map in the receiver, so a
// method that loads the map field when the iterator is *made* and hands the loaded map to the
// iterator yields a sequence over the contents of that moment: after a reload it keeps producing
// the old policies. Every method of *PolicySet with a function-typed result must therefore leave the
// load of the state to the function it returns.
func c20LazyIterators(p *Prog, r *Report, ps *types.Named, st *types.Struct) {
	const rule = "R20.7-iterate-current-contents"
	// is the state field ever replaced? (whole-struct store through a receiver, or a store to the field)
	replaced := false
	for _, fn := range p.Funcs {
		if fnPkgPath(fn) != pRoot || fn.Signature.Recv() == nil || len(fn.Params) == 0 {
			continue
		}
		forEachInstr(fn, func(in ssa.Instruction) {
			if sto, ok := in.(*ssa.Store); ok {
				if sto.Addr == fn.Params[0] && typeIs(fn.Params[0].Type(), pRoot, "PolicySet") {
					replaced = true
				}
				if fa, ok := sto.Addr.(*ssa.FieldAddr); ok && fa.X == fn.Params[0] && typeIs(fn.Params[0].Type(), pRoot, "PolicySet") {
					replaced = true
				}
			}
		})
	}
	n := 0
	ms := p.SSA.MethodSets.MethodSet(types.NewPointer(ps))
	for i := 0; i < ms.Len(); i++ {
		fn := p.SSA.MethodValue(ms.At(i))
		if fn == nil || fn.Synthetic != "" || fn.Blocks == nil {
			if fn != nil && fn.Synthetic != "" {
				if obj, ok := ms.At(i).Obj().(*types.Func); ok {
					fn = p.SSA.FuncValue(obj)
				}
			}
			if fn == nil || fn.Blocks == nil {
				continue
			}
		}
		res := fn.Signature.Results()
		if res.Len() != 1 {
			continue
		}
		if _, isFn := res.At(0).Type().Underlying().(*types.Signature); !isFn {
			continue
		}
		n++
		q := fnQual(fn)
		if _, isPtr := fn.Signature.Recv().Type().(*types.Pointer); !isPtr {
			// a value receiver is a copy of the struct made at the call: same staleness
			r.Check(!replaced, rule, q, p.pos(fn.Pos()), "value receiver, and the state field is never replaced", "the iterator method has a value receiver: it iterates the copy of the set made when it was called, which a later decode does not update")
			continue
		}
		early := ""
		forEachInstr(fn, func(in ssa.Instruction) {
			ld, ok := in.(*ssa.UnOp)
			if !ok || ld.Op != token.MUL {
				return
			}
			if fa, ok := ld.X.(*ssa.FieldAddr); ok && fa.X == fn.Params[0] {
				early = p.pos(ld.Pos())
			}
			if ld.X == fn.Params[0] {
				early = p.pos(ld.Pos())
			}
		})
		if early != "" && replaced {
			r.Viol(rule, q, p.pos(fn.Pos()), "the method reads the set's state when the iterator is made ("+early+") rather than when it runs; the decoders replace that state, so a sequence obtained before a reload keeps yielding the old policies — iteration (and authorization through a stored sequence) no longer depends on the current contents only")
		} else {
			r.OK(rule, q, p.pos(fn.Pos()), boolStr(early == "", "the returned function reads the state through the receiver when it runs", "state read early, but the state field is never replaced"))
		}
	}
	if n == 0 {
		r.Anchor(rule, "methods of *PolicySet that return an iterator")
	}
}

// R20.8 — a rejected document leaves the set unchanged: in the decoders of *PolicySet no write through
// the receiver may be followed, on any path, by a return with an error.
func c20FailedDecode(p *Prog, r *Report, ps *types.Named) {
	const rule = "R20.8-failed-decode-keeps-set"
	n := 0
	ms := p.SSA.MethodSets.MethodSet(types.NewPointer(ps))
	for i := 0; i < ms.Len(); i++ {
		fn := p.SSA.MethodValue(ms.At(i))
		if fn == nil || fn.Blocks == nil || !strings.HasPrefix(fn.Name(), "Unmarshal") {
			continue
		}
		res := fn.Signature.Results()
		if res.Len() == 0 || !isErrorType(res.At(res.Len()-1).Type()) {
			continue
		}
		n++
		q := fnQual(fn)
		// blocks that can reach a return of a possibly non-nil error
		errRet := map[*ssa.BasicBlock]bool{}
		for _, b := range fn.Blocks {
			if ret, ok := lastInstr(b).(*ssa.Return); ok {
				e := ret.Results[len(ret.Results)-1]
				if c, isC := e.(*ssa.Const); isC && c.IsNil() {
					continue
				}
				errRet[b] = true
			}
		}
		canErr := map[*ssa.BasicBlock]bool{}
		changed := true
		for changed {
			changed = false
			for _, b := range fn.Blocks {
				if canErr[b] {
					continue
				}
				if errRet[b] {
					canErr[b] = true
					changed = true
					continue
				}
				for _, s := range b.Succs {
					if canErr[s] {
						canErr[b] = true
						changed = true
					}
				}
			}
		}
		rootsAtRecv := func(v ssa.Value) bool {
			for d := 0; d < 8; d++ {
				switch x := v.(type) {
				case *ssa.Parameter:
					return x == fn.Params[0]
				case *ssa.FieldAddr:
					v = x.X
				case *ssa.IndexAddr:
					v = x.X
				case *ssa.UnOp:
					v = x.X
				default:
					return false
				}
			}
			return false
		}
		bad := ""
		writes := 0
		forEachInstr(fn, func(in ssa.Instruction) {
			var addr ssa.Value
			switch x := in.(type) {
			case *ssa.Store:
				addr = x.Addr
			case *ssa.MapUpdate:
				addr = x.Map
			default:
				return
			}
			if !rootsAtRecv(addr) {
				return
			}
			writes++
			// an error return later in the same block or in a successor
			b := in.Block()
			later := errRet[b]
			for _, s := range b.Succs {
				if canErr[s] {
					later = true
				}
			}
			if later {
				bad = p.pos(in.Pos())
			}
		})
		switch {
		case bad != "":
			r.Viol(rule, q, p.pos(fn.Pos()), "the decoder writes through its receiver at "+bad+" and can still return an error afterwards: a rejected document leaves the set partly overwritten instead of unchanged")
		case writes == 0:
			r.Undec(rule, q, p.pos(fn.Pos()), "the decoder never writes its receiver")
		default:
			r.OK(rule, q, p.pos(fn.Pos()), "the receiver is written only where no error return can follow")
		}
	}
	if n == 0 {
		r.Anchor(rule, "decoders of *PolicySet")
	}
}
